"""Property monitors: each property stated directly as an executable oracle over the
implementation's run (harness observations = ground truth + hook snapshots).  They never
look at the model.  A monitor returns a list of (step_index, message)."""
import re
from trace import parse_obs


def parse_list(s):
    s = s.strip()
    if s in ("?", ""):
        return None
    assert s[0] == "[" and s[-1] == "]", s
    body = s[1:-1]
    return [x for x in body.split(",") if x] if body else []


def cfg_of(trace):
    d = {}
    for w in trace.cfg.split()[2:]:
        k, v = w.split("=", 1)
        d[k] = v
    if d.get("tmo") == "h":
        d["tmo"] = "f"     # Duration::MAX is a finite timeout (whose deadline never passes)
    return d


def norm_tmo(words):
    """timeout kinds of an operation's spec: `h` (Duration::MAX) is a finite timeout"""
    return ["f" if w == "h" else w for w in words]


def events(obs):
    e = obs.get("ev", "")
    return [x for x in e.split(";") if x]


def ev_args(e):
    name, rest = e.split("(", 1)
    return name, rest[:-1].split(",")


class Run:
    """Replays the bookkeeping every monitor needs over one trace."""

    def __init__(self, trace):
        self.t = trace
        self.cfg = cfg_of(trace)
        self.max0 = int(self.cfg.get("max", 0))
        self.ops = []          # per op: dict(kind, obj, spec)
        self.rows = []         # per step: dict with parsed obs + derived info
        self.has_resize = False
        self.has_close = False
        labels = {}
        for k, (a, o, sec) in enumerate(trace.steps):
            ws = a.split()
            if ws[0] == "start":
                kind = ws[1]
                spec = ws[2:]
                if kind == "get" and spec == ["d"]:
                    # Pool::get(): the pool-level timeouts of the configuration
                    spec = list(self.cfg.get("pt", "nnn"))
                op = {"kind": kind, "spec": norm_tmo(spec) if kind == "get" else spec, "obj": None, "start": k}
                if kind in ("ret", "take"):
                    op["obj"] = ws[2]
                if kind == "resize":
                    self.has_resize = True
                if kind == "close":
                    self.has_close = True
                self.ops.append(op)
                i = len(self.ops) - 1
            else:
                i = int(ws[1])
            if o is None:
                self.rows.append(None)
                continue
            d = parse_obs(o)
            labels[i] = (d["lbl"], d["susp"] == "1")
            row = {
                "k": k, "action": a, "section": sec, "op": i, "obs": d,
                "labels": dict(labels),
                "live": parse_list(d["live"]), "out": parse_list(d["out"]),
                "idle": parse_list(d["idle"]), "ev": events(d),
            }
            self.rows.append(row)

    def discarded_in_hand(self, row):
        """objects that are in the hands of an op past the point of no return of take /
        surplus discard: they exist but are no longer the pool's"""
        res = set()
        for i, (lbl, _) in row["labels"].items():
            op = self.ops[i]
            if op["kind"] == "take" and lbl in ("take.add_permits", "take.detach"):
                res.add(op["obj"])
            if op["kind"] == "ret" and lbl == "ret.detach":
                res.add(op["obj"])
        return res

    def creating(self, row):
        return sum(1 for i, (lbl, _) in row["labels"].items()
                   if self.ops[i]["kind"] == "get" and lbl == "create")


def mon_C01(run):
    """live (pool's) objects + objects being created <= max_size; holders <= max_size;
    only for histories without resize / close"""
    if run.has_close:
        return []
    if run.has_resize:
        # resize() calls that never lower max_size (to the current value, or growing) leave the
        # property in force: the limit is the current max_size.  A history with a shrink is
        # C07's business (surplus objects legitimately exist for a while).
        seen = [int(r["obs"]["max"]) for r in run.rows if r and r["obs"]["max"] != "?"]
        targets = [int(op["spec"][0]) for op in run.ops if op["kind"] == "resize"]
        cur = run.max0
        for t in targets:
            if t < cur:
                return []
            cur = max(cur, t)
        if any(b < a for a, b in zip(seen, seen[1:])):
            return []
    bad = []
    cur_max = run.max0
    for row in run.rows:
        if row is None:
            continue
        if row["obs"]["max"] != "?":
            cur_max = max(cur_max, int(row["obs"]["max"]))
        pooled = [x for x in row["live"] if x not in run.discarded_in_hand(row)]
        n = len(pooled) + run.creating(row)
        if n > cur_max:
            bad.append((row["k"], f"{len(pooled)} live objects + {run.creating(row)} being created > max_size {cur_max}"))
        if len(row["out"]) > cur_max:
            bad.append((row["k"], f"{len(row['out'])} callers hold an object > max_size {cur_max}"))
        if bad:
            break
    return bad


def scripted_panics(run):
    return {int(r["action"].split()[1]) for r in run.rows
            if r and r["action"].startswith("step") and r["action"].endswith(" panic")}


def mon_C02(run):
    """no capacity lost (probe at the end of resize-free histories), no stranded waiter,
    no panic that the script did not inject, no fault"""
    bad = []
    panics = scripted_panics(run)
    probe_results = []
    probe2, probe2_max = [], 0
    for row in run.rows:
        if row is None:
            continue
        d = row["obs"]
        k = row["k"]
        woken = parse_list(d["woken"]) or []
        for i, (lbl, susp) in row["labels"].items():
            if run.ops[i]["kind"] == "get" and lbl == "get.acquire" and susp and str(i) not in woken:
                if d["permits"] != "0" or d["closed"] != "0":
                    bad.append((k, f"get #{i} is blocked and was not woken although permits={d['permits']} closed={d['closed']}"))
        for e in row["ev"]:
            name, args = ev_args(e)
            if name == "oppanic" and int(args[0]) not in panics:
                bad.append((k, f"operation #{args[0]} panicked"))
            if name == "closed" and d["closed"] != "1":
                # a waiting get() is completed as soon as the pool is closed: close() must close
                bad.append((k, f"close() #{args[0]} returned but the pool is not closed: callers waiting for a slot stay blocked"))
            if name == "result" and args[1] == "panicked" and int(args[0]) not in panics:
                bad.append((k, f"get #{args[0]} panicked without an injected panic"))
            if name == "result" and row["section"] == "probe":
                probe_results.append(args[1].split(":")[0])
            if name == "result" and row["section"] == "probe2":
                probe2.append(args[1].split(":")[0])
                probe2_max = int(d["max"])
        if d.get("fault") != "0":
            bad.append((k, "fault"))
        if bad:
            return bad[:1]
    if not run.has_resize and not run.has_close and probe_results:
        want = ["ok"] * min(run.max0, 8) + (["timeout_wait"] if run.max0 < 8 else [])
        if probe_results != want:
            last = max(r["k"] for r in run.rows if r)
            bad.append((last, f"capacity probe after everything was returned: zero-wait gets gave {probe_results}, expected {want}"))
    if not bad and probe2:
        n = min(probe2_max, 8)
        if probe2[:n] != ["ok"] * n:
            last = max(r["k"] for r in run.rows if r)
            bad.append((last, f"capacity lost: after a shrink to {probe2_max} with every object idle only {probe2[:n].count('ok')} objects can be had (zero-wait gets gave {probe2})"))
    if bad:
        return bad[:1]
    if run.has_resize and not run.has_close and probe_results:
        # with resizes in the history: at least the final max_size objects can be had (more than
        # that is C07's business: a shrink that could not collect everything)
        last = max(r["k"] for r in run.rows if r)
        final_max = int(next(r for r in reversed(run.rows) if r)["obs"]["max"])
        n = min(final_max, 8)
        if probe_results[:n] != ["ok"] * n:
            bad.append((last, f"capacity lost: after everything was returned only {probe_results[:n].count('ok')} of max_size {final_max} objects can be had (zero-wait gets gave {probe_results})"))
    if not bad:
        bad = take_rules(run)
    return bad[:1]


def mon_C11(run):
    """status(): exact when nothing is in progress, plausible always"""
    if isinstance(run, URun):
        # the unmanaged pool reports through the same `Status`: exact at rest (mon_C05's rules)
        return mon_C05(run)
    bad = []
    cur_max = run.max0
    closed = False
    prev_labels = {}
    for row in run.rows:
        if row is None:
            continue
        k, d = row["k"], row["obs"]
        i = row["op"]
        # ground truth of max_size: the resize that took the mutex last; close => 0
        # (a resize on a closed pool does nothing: it checks is_closed() under the mutex)
        pl0 = prev_labels.get(i, ("", False))[0]
        if row["action"].startswith("step") and pl0 == "close.lock":
            cur_max = 0
        elif row["action"].startswith("step") and pl0 == "resize.lock" and not closed:
            cur_max = int(run.ops[i]["spec"][0])
        for e in row["ev"]:
            name, args = ev_args(e)
            if name == "closed":
                closed = True
            if name != "status":
                continue
            mx, size, avail, waiting = (int(x) for x in args[1:5])
            labels = row["labels"]
            in_get = sum(1 for j, (lbl, _) in labels.items()
                         if run.ops[j]["kind"] == "get" and lbl not in ("get.enter", "done"))
            pooled = [x for x in row["live"] if x not in run.discarded_in_hand(row)]
            if size > len(pooled) + run.creating(row):
                bad.append((k, f"status.size {size} > {len(pooled)} objects existing + {run.creating(row)} being created"))
            if avail > size:
                bad.append((k, f"status.available {avail} > size {size}"))
            if waiting > in_get:
                bad.append((k, f"status.waiting {waiting} > {in_get} callers inside get()"))
            if size > mx and not (run.has_resize or run.has_close):
                bad.append((k, f"status.size {size} > max_size {mx} without any resize"))
            if max(mx, size, avail, waiting) > 1 << 40:
                bad.append((k, "a status counter wrapped around"))
            woken = parse_list(d["woken"]) or []
            others = {j: v for j, v in labels.items() if j != i}
            at_rest = all(lbl == "done" or (run.ops[j]["kind"] == "get" and lbl == "get.acquire" and susp and str(j) not in woken)
                          for j, (lbl, susp) in others.items())
            if at_rest:
                blocked = sum(1 for j, (lbl, _) in others.items() if lbl != "done")
                idle = row["idle"]
                want = (cur_max, len(row["live"]), len(idle) if idle is not None else avail, blocked)
                if (mx, size, avail, waiting) != want:
                    bad.append((k, f"status() at rest = (max_size {mx}, size {size}, available {avail}, waiting {waiting}) but ground truth is {want}"))
        # size exceeds max_size only as the residue of a shrink: never by creating a new object
        if row["action"].startswith("step") and prev_labels.get(i, ("", False))[0] == "create.size" \
                and d["lbl"] != "create.size" and d["size"] != "?" and d["max"] != "?" and d["closed"] == "0":
            if int(d["size"]) > int(d["max"]):
                bad.append((k, f"get #{i} created a new object although the pool was full: size {d['size']} > max_size {d['max']} (not the residue of a shrink)", "create-over-max"))
        prev_labels[i] = (d["lbl"], d["susp"] == "1")
        if bad:
            return bad[:1]
    return bad[:1]


def mon_C10_unmanaged(run):
    """the unmanaged pool's single timeout: every result has its documented cause"""
    bad = []
    rt = run.cfg.get("rt") == "1"
    closed_seen = False
    for row in run.rows:
        if row is None:
            continue
        k, d = row["k"], row["obs"]
        if d.get("closed") == "1":
            closed_seen = True
        for e in row["ev"]:
            name, args = ev_args(e)
            if name != "result":
                continue
            op = run.ops[int(args[0])]
            r = args[1].split(":")[0]
            kind = op["kind"]
            if kind not in ("uget", "uremove", "utryget", "utryremove"):
                continue
            tmo = (op["spec"] or ["n"])[0] if kind in ("uget", "uremove") else "z"
            if tmo == "d":
                tmo = run.tmo
            if r == "closed" and not closed_seen:
                bad.append((k, f"{kind[1:]} #{args[0]} reported Closed on a pool that had not been closed"))
            if r == "no_runtime" and not (tmo == "f" and not rt):
                bad.append((k, f"{kind[1:]} #{args[0]} (timeout {tmo}, runtime {'present' if rt else 'absent'}) reported NoRuntimeSpecified"))
            if tmo == "f" and not rt and r not in ("no_runtime", "cancelled"):
                bad.append((k, f"{kind[1:]} #{args[0]} with a finite timeout and no runtime ended with {r} instead of NoRuntimeSpecified"))
            if r == "timeout" and tmo == "n":
                bad.append((k, f"{kind[1:]} #{args[0]} without any timeout reported Timeout"))
        if bad:
            return bad[:1]
    return bad[:1]


def mon_C10(run):
    """timeouts / non-blocking / missing runtime: every result variant has its documented
    cause, judged from what the scripted environment did"""
    if isinstance(run, URun):
        return mon_C10_unmanaged(run)
    bad = []
    rt = run.cfg.get("rt") == "1"
    prev = {}          # op -> (label, susp) before the current step
    prev_obs = None
    deadline_at_acquire = set()
    expect_label = {}  # op -> label it must be at after the step just taken
    for row in run.rows:
        if row is None:
            continue
        k, d, i = row["k"], row["obs"], row["op"]
        op = run.ops[i]
        a = row["action"].split()
        if op["kind"] == "get":
            w, c, r = op["spec"]
            lbl, susp = d["lbl"], d["susp"] == "1"
            if a[0] == "step":
                oc = a[2]
                pl, ps = prev.get(i, ("get.enter", False))
                if pl == "get.acquire" and ps and oc == "deadline" and prev_obs is not None:
                    woken = parse_list(prev_obs["woken"]) or []
                    if prev_obs["closed"] == "1":
                        pass
                    elif str(i) in woken:
                        if lbl != "get.pop":
                            bad.append((k, f"get #{i}: a slot was handed to it before the wait deadline passed, but it did not take it (now at {lbl})"))
                    else:
                        deadline_at_acquire.add(i)
                        if lbl != "drop.users":
                            bad.append((k, f"get #{i}: wait deadline passed without a slot but the call did not time out (now at {lbl})"))
                if pl == "create" and (oc == "deadline" or (oc == "pending" and c == "z")):
                    if lbl != "drop.permit":
                        bad.append((k, f"get #{i}: create timeout did not abort the call (now at {lbl})"))
                    op["_tc"] = True
                if pl == "recycle" and (oc == "deadline" or (oc == "pending" and r == "z")):
                    if lbl != "unready.lock":
                        bad.append((k, f"get #{i}: recycle timeout did not reject the object (now at {lbl})"))
            if w == "z" and lbl == "get.acquire" and susp:
                bad.append((k, f"get #{i} has a zero wait timeout but is waiting for a slot"))
            if not rt and r != "n" and lbl not in ("get.enter", "done"):
                bad.append((k, f"get #{i}: recycle timeout without runtime but the call went on to {lbl}"))
            for e in row["ev"]:
                name, args = ev_args(e)
                if name in ("detach", "destroy", "create", "recycle") and not rt and r != "n":
                    bad.append((k, f"get #{i}: recycle timeout without runtime but {e} happened"))
                if name == "create" and not rt and c != "n":
                    bad.append((k, f"get #{i}: create timeout without runtime but Manager::create was called"))
                if name != "result" or int(args[0]) != i:
                    continue
                R = args[1].split(":")[0]
                if R == "timeout_recycle":
                    bad.append((k, f"get #{i} returned Timeout(Recycle)"))
                if R == "no_runtime" and (rt or (r == "n" and w != "f" and c == "n")):
                    bad.append((k, f"get #{i} returned NoRuntimeSpecified with rt={rt} timeouts={w}{c}{r}"))
                if R == "timeout_wait":
                    if w == "n" or (w == "f" and i not in deadline_at_acquire):
                        bad.append((k, f"get #{i} returned Timeout(Wait) but wait={w} and no deadline passed"))
                    if w == "z" and prev_obs is not None:
                        pass
                if R == "timeout_create" and not (rt and c in ("z", "f") and op.get("_tc")):
                    bad.append((k, f"get #{i} returned Timeout(Create) without a create timeout firing"))
                if R == "ok" and not rt and (r != "n" or w == "f"):
                    bad.append((k, f"get #{i} succeeded although timeouts={w}{c}{r} need a runtime"))
                if not rt and (r != "n" or w == "f") and R != "no_runtime" and R not in ("cancelled",):
                    bad.append((k, f"get #{i}: timeouts={w}{c}{r} without runtime must give NoRuntimeSpecified, got {R}"))
            # zero wait: the acquisition step decides at once, by the state it saw
            if a[0] == "step" and prev.get(i, ("", False))[0] == "get.acquire" and w == "z" and prev_obs is not None:
                if prev_obs["closed"] == "1":
                    want = "drop.users"
                elif prev_obs["permits"] == "0":
                    want = "drop.users"
                else:
                    want = "get.pop"
                if lbl != want:
                    bad.append((k, f"get #{i}: zero-wait acquisition saw permits={prev_obs['permits']} closed={prev_obs['closed']} but went to {lbl}"))
            prev[i] = (lbl, susp)
        prev_obs = d
        if bad:
            return bad[:1]
    return bad[:1]


def is_sublist(a, b):
    it = iter(b)
    return all(x in it for x in a)


def object_history_violations(run):
    """every object: detached at most once, destroyed at most once, never seen again
    (handed out, idle, in a callback) after it was detached / destroyed / taken"""
    gone = {}
    detached = {}
    bad = []
    for row in run.rows:
        if row is None:
            continue
        k = row["k"]
        for e in row["ev"]:
            name, args = ev_args(e)
            if name == "detach":
                oid = args[1]
                if oid in detached:
                    bad.append((k, f"object {oid} detached twice (steps {detached[oid]} and {k})"))
                detached[oid] = k
            elif name == "destroy":
                oid = args[1]
                if oid in gone:
                    bad.append((k, f"object {oid} destroyed twice"))
                if oid not in detached:
                    # whatever the pool discards (failed / abandoned recycle or creation, surplus
                    # after a shrink, resize, close) goes through Manager::detach first
                    bad.append((k, f"object {oid} was destroyed by the pool without Manager::detach having been called for it"))
                gone[oid] = k
            elif name == "taken":
                gone[args[1]] = k
            elif name in ("handout", "recycle", "pre_recycle", "post_recycle", "post_create", "pred"):
                oid = args[-1].split(":")[0] if name == "handout" else args[2].split(":")[0]
                if name == "pred":
                    oid = args[2].split(":")[0]
                if oid in gone or oid in detached:
                    bad.append((k, f"object {oid} used by {name} after the pool had let go of it"))
        if row["idle"] is not None:
            for x in row["idle"]:
                if x.split(":")[0] in gone:
                    bad.append((k, f"object {x} is idle after it was destroyed / taken"))
        if bad:
            return bad
    return bad


def mon_C03(run):
    """abandoned get(): (1) solo differential on the implementation: a get that ran alone
    and ended without an object leaves permits/closed/users/out/woken as they were, idle a
    sub-list, size reduced by the idle objects discarded, every discarded or created object
    destroyed; (2) object histories: detached exactly once, never seen again"""
    bad = object_history_violations(run)
    if bad:
        return bad[:1]
    rows = run.rows
    n = len(rows)
    k = 0
    while k < n:
        row = rows[k]
        if row is None or not row["action"].startswith("start get") or k == 0 or rows[k - 1] is None:
            k += 1
            continue
        i = row["op"]
        before = rows[k - 1]["obs"]
        if before["size"] == "?":
            k += 1
            continue
        j = k + 1
        solo = True
        while j < n and rows[j] is not None:
            a = rows[j]["action"].split()
            if a[0] != "step" or int(a[1]) != i:
                solo = False
                break
            if rows[j]["obs"]["lbl"] == "done":
                break
            j += 1
        if not solo or j >= n or rows[j] is None or rows[j]["obs"]["lbl"] != "done":
            k += 1
            continue
        after = rows[j]["obs"]
        res = [ev_args(e)[1][1] for e in rows[j]["ev"] if e.startswith("result(")]
        if res and res[0].startswith("ok"):
            k = j + 1
            continue
        steps = " ".join(rows[x]["action"].split()[2] for x in range(k + 1, j + 1))
        what = f"get #{i} ran alone ({steps}) and ended with {res[0] if res else '?'}"
        for c in ("permits", "closed", "users", "out", "woken", "max"):
            if before[c] != after[c]:
                bad.append((rows[j]["k"], f"{what}: {c} was {before[c]} before the call and is {after[c]} after it"))
        ib, ia = parse_list(before["idle"]), parse_list(after["idle"])
        if ib is None or ia is None or "?" in (before["size"], after["size"]):
            # the slots mutex was unavailable at one of the two snapshots (a resize in progress)
            k = j + 1
            continue
        if not is_sublist(ia, ib):
            bad.append((rows[j]["k"], f"{what}: idle queue {ia} is not a sub-list of {ib}"))
        if int(before["size"]) - int(after["size"]) != len(ib) - len(ia):
            bad.append((rows[j]["k"], f"{what}: size went {before['size']} -> {after['size']} but {len(ib) - len(ia)} idle objects were discarded"))
        lb, la = set(parse_list(before["live"])), set(parse_list(after["live"]))
        discarded = {x.split(":")[0] for x in ib} - {x.split(":")[0] for x in ia}
        if la != lb - discarded:
            bad.append((rows[j]["k"], f"{what}: live objects {sorted(la)} != before {sorted(lb)} minus discarded {sorted(discarded)}"))
        det = {}
        for x in range(k, j + 1):
            for e in rows[x]["ev"]:
                nm, ar = ev_args(e)
                if nm == "detach":
                    det[ar[1]] = det.get(ar[1], 0) + 1
        for oid in discarded:
            if det.get(oid, 0) != 1:
                bad.append((rows[j]["k"], f"{what}: discarded idle object {oid} was detached {det.get(oid, 0)} times"))
        if bad:
            return bad[:1]
        k = j + 1
    return bad[:1]


def take_rules(run):
    """Object::take run alone: size and users drop by one; the slot is freed exactly when the
    object was not a surplus one (size <= max_size)"""
    bad = []
    rows = run.rows
    for k, row in enumerate(rows):
        if row is None or not row["action"].startswith("start take") or k == 0 or rows[k - 1] is None:
            continue
        i = row["op"]
        j = k + 1
        solo = True
        while j < len(rows) and rows[j] is not None:
            a = rows[j]["action"].split()
            if a[0] != "step" or int(a[1]) != i:
                solo = False
                break
            if rows[j]["obs"]["lbl"] == "done":
                break
            j += 1
        if not solo or j >= len(rows) or rows[j] is None or rows[j]["obs"]["lbl"] != "done":
            continue
        b, a_ = rows[k - 1]["obs"], rows[j]["obs"]
        if b["size"] == "?" or a_["size"] == "?":
            continue
        oid = run.ops[i]["obj"]
        if int(b["size"]) - int(a_["size"]) != 1:
            bad.append((rows[j]["k"], f"take of object {oid}: size went {b['size']} -> {a_['size']}"))
        if int(b["users"]) - int(a_["users"]) != 1:
            bad.append((rows[j]["k"], f"take of object {oid}: users went {b['users']} -> {a_['users']}"))
        if int(b["size"]) <= int(b["max"]) and b["closed"] == "0":
            woken_new = len(parse_list(a_["woken"]) or []) - len(parse_list(b["woken"]) or [])
            if int(a_["permits"]) + woken_new - int(b["permits"]) != 1:
                bad.append((rows[j]["k"], f"take of object {oid} did not free its slot: permits {b['permits']} -> {a_['permits']}, newly woken {woken_new}"))
        if int(b["size"]) > int(b["max"]) and b["closed"] == "0":
            # a surplus object (the pool was shrunk below its size): taking it frees no slot
            woken_new = len(parse_list(a_["woken"]) or []) - len(parse_list(b["woken"]) or [])
            if int(a_["permits"]) + woken_new - int(b["permits"]) != 0:
                bad.append((rows[j]["k"], f"take of surplus object {oid} (size {b['size']} > max_size {b['max']}) released a slot: permits {b['permits']} -> {a_['permits']}, newly woken {woken_new}"))
        if oid in (parse_list(a_["live"]) or []):
            bad.append((rows[j]["k"], f"taken object {oid} still counted as the pool's"))
        if bad:
            return bad[:1]
    return bad[:1]


def mon_C09(run):
    """retain exact; take hands over / shrinks / frees the slot; detach exactly once for
    every object the live pool lets go of, never for one that stays"""
    bad = object_history_violations(run)
    if bad:
        return bad[:1]
    detached, gone = {}, {}
    prev = None
    for row in run.rows:
        if row is None:
            continue
        k, d = row["k"], row["obs"]
        preds = []
        # "never for an object that stays in the pool": a returned object is let go of as surplus
        # only if the pool really holds more objects than max_size at that moment (objects other
        # operations have already decided to discard or hand over do not count)
        i0 = row["op"]
        if prev is not None and run.ops[i0]["kind"] == "ret" and d["lbl"] == "ret.detach" \
                and prev["labels"].get(i0, ("", False))[0] == "ret.lock" and prev["obs"]["max"] != "?":
            pooled = [x for x in prev["live"] if x not in run.discarded_in_hand(prev)]
            if len(pooled) <= int(prev["obs"]["max"]):
                bad.append((k, f"returned object {run.ops[i0]['obj']} is discarded as surplus although the pool holds {len(pooled)} object(s) with max_size {prev['obs']['max']}"))
        for e in row["ev"]:
            name, args = ev_args(e)
            if name == "detach":
                detached[args[1]] = detached.get(args[1], 0) + 1
            elif name == "destroy":
                gone[args[1]] = "destroyed"
                if detached.get(args[1], 0) != 1:
                    bad.append((k, f"object {args[1]} was destroyed by the live pool after {detached.get(args[1], 0)} detach calls"))
            elif name == "taken":
                gone[args[1]] = "taken"
                if detached.get(args[1], 0) != 1:
                    bad.append((k, f"object {args[1]} was taken after {detached.get(args[1], 0)} detach calls"))
            elif name == "pred":
                preds.append((args[2].split(":")[0], args[-1] == "1", args[2]))
            elif name == "retained":
                e_full = e
                kept_n = int(args[1])
                removed = [x for x in e_full[e_full.index("[") + 1:e_full.rindex("]")].split(",") if x]
                want_removed = [oid for oid, keep, _ in preds if not keep]
                want_kept = [full for oid, keep, full in preds if keep]
                if removed != want_removed or kept_n != len(want_kept):
                    bad.append((k, f"retain returned retained={kept_n} removed={removed}, predicate said keep={[o for o,kp,_ in preds if kp]} drop={want_removed}"))
                for oid in removed:
                    gone[oid] = "retained-out"
                    if detached.get(oid, 0) != 1:
                        bad.append((k, f"object {oid} removed by retain after {detached.get(oid, 0)} detach calls"))
                if prev is not None and prev["idle"] is not None and row["idle"] is not None:
                    if [x for x, _, _ in preds] != [x.split(":")[0] for x in prev["idle"]]:
                        bad.append((k, f"retain's predicate saw {[x for x,_,_ in preds]} but the idle queue was {prev['idle']}"))
                    if row["idle"] != want_kept:
                        bad.append((k, f"idle queue after retain is {row['idle']}, expected {want_kept}"))
                    po = prev["obs"]
                    for c in ("permits", "closed", "users", "out", "max"):
                        if po[c] != d[c]:
                            bad.append((k, f"retain changed {c}: {po[c]} -> {d[c]}"))
                    if po["size"] != "?" and int(po["size"]) - int(d["size"]) != len(removed):
                        bad.append((k, f"retain removed {len(removed)} objects but size went {po['size']} -> {d['size']}"))
        # objects still in the pool were never detached
        for x in (row["idle"] or []):
            if detached.get(x.split(":")[0], 0):
                bad.append((k, f"idle object {x} has been detached"))
        for x in row["out"]:
            if detached.get(x, 0):
                bad.append((k, f"checked-out object {x} has been detached"))
        prev = row
        if bad:
            return bad[:1]
    return take_rules(run)
    return bad[:1]


def resize_timeline(run):
    """for every resize/close op: step indices of lock (mutex taken: the first step of the
    operation) / done"""
    tl = {}
    prev = {}
    for row in run.rows:
        if row is None:
            continue
        i = row["op"]
        op = run.ops[i]
        if op["kind"] in ("resize", "close"):
            e = tl.setdefault(i, {"n": 0 if op["kind"] == "close" else int(op["spec"][0]), "kind": op["kind"],
                                  "start": op["start"], "lock": None, "done": None})
            lbl = row["obs"]["lbl"]
            pl = prev.get(i)
            if row["action"].startswith("step"):
                if pl in ("resize.lock", "close.lock") and e["lock"] is None:
                    e["lock"] = row["k"]
                if lbl == "done" and e["done"] is None:
                    e["done"] = row["k"]
            prev[i] = lbl
    return tl


def admissions(run):
    """get op -> step at which it obtained its slot (label became get.pop for the first time)"""
    adm = {}
    for row in run.rows:
        if row is None:
            continue
        i = row["op"]
        if run.ops[i]["kind"] == "get" and row["obs"]["lbl"] == "get.pop" and i not in adm:
            adm[i] = row["k"]
    return adm


def mon_C07(run):
    """resize(): max_size set, no admission over the limit after a resize returned, grow
    exact, capacity at the end = last target"""
    if not run.has_resize or run.has_close:
        return []
    bad = []
    tl = resize_timeline(run)
    adm = admissions(run)
    locks = sorted((e["lock"], i) for i, e in tl.items() if e["lock"] is not None)
    rows = run.rows
    for row in rows:
        if row is None:
            continue
        k, d = row["k"], row["obs"]
        # (1) max_size reported after the resize returned, nobody else resizing
        i = row["op"]
        if i in tl and tl[i]["done"] == k and tl[i]["lock"] is not None:
            others = [e for j, e in tl.items() if j != i and e["start"] <= k and (e["done"] is None or e["done"] > k)]
            later = [l for l, j in locks if l > tl[i]["lock"] and l <= k]
            if not others and not later and d["max"] != "?" and int(d["max"]) != tl[i]["n"]:
                bad.append((k, f"resize({tl[i]['n']}) returned but max_size is {d['max']}", "max"))
        # (2) admissions
        for e in row["ev"]:
            name, args = ev_args(e)
            if name != "handout":
                continue
            g = int(args[0])
            if g not in adm:
                continue
            a = adm[g]
            done_before = [(e2["lock"], j) for j, e2 in tl.items()
                           if e2["done"] is not None and e2["done"] < a and e2["lock"] is not None]
            if not done_before:
                continue
            lk, j = max(done_before)
            # the limit must not have been touched by another resize since
            if any(l > lk and l <= k for l, _ in locks):
                continue
            if any(e2["start"] <= k and (e2["done"] is None or e2["done"] > a) and j2 != j and e2["lock"] is None
                   for j2, e2 in tl.items()):
                pass
            n = tl[j]["n"]
            pooled = [x for x in row["live"] if x not in run.discarded_in_hand(row)]
            if len(pooled) > n:
                bad.append((k, f"get #{g} was admitted after resize({n}) had returned and its hand-out leaves {len(pooled)} live objects", "over-limit"))
        if bad:
            return bad[:1]
    # (3) grow exactness on solo resizes
    for i, e in tl.items():
        if e["done"] is None or e["start"] == 0:
            continue
        b, a_ = rows[e["start"] - 1], rows[e["done"]]
        if b is None or a_ is None:
            continue
        seg = rows[e["start"] + 1:e["done"] + 1]
        if any(r is None or r["op"] != i for r in seg):
            continue
        bo, ao = b["obs"], a_["obs"]
        if bo["max"] == "?" or bo["closed"] == "1":
            continue
        old = int(bo["max"])
        if e["n"] > old:
            woken_new = len(parse_list(ao["woken"]) or []) - len(parse_list(bo["woken"]) or [])
            if int(ao["permits"]) + woken_new - int(bo["permits"]) != e["n"] - old:
                bad.append((e["done"], f"resize({old}->{e['n']}) added {int(ao['permits']) + woken_new - int(bo['permits'])} slots instead of {e['n'] - old}", "grow"))
    if bad:
        return bad[:1]
    # (4) capacity at the end
    probe = [ev_args(e)[1][1].split(":")[0] for r in rows if r and r["section"] == "probe" for e in r["ev"] if e.startswith("result(")]
    # (the generator's epilogue shrinks once more after the probe: only resizes before it count here)
    probe_rows = [r["k"] for r in rows if r and r["section"] == "probe"]
    locks1 = [l for l in locks if not probe_rows or l[0] < probe_rows[0]]
    if probe and locks1:
        last_n = tl[max(locks1)[1]]["n"]
        if all(e["done"] is not None for e in tl.values()):
            got = sum(1 for x in probe if x == "ok")
            if got != min(last_n, 8) or (last_n < 8 and probe[-1] != "timeout_wait"):
                last = probe_rows[-1]
                bad.append((last, f"after all objects returned the pool handed out {got} objects at once; the last resize target was {last_n}", "capacity"))
    if bad:
        return bad[:1]
    # (5) the epilogue: a shrink by one with every object idle, then the same probe
    probe2_rows = [r for r in rows if r and r["section"] == "probe2"]
    probe2 = [ev_args(e)[1][1].split(":")[0] for r in probe2_rows for e in r["ev"] if e.startswith("result(")]
    if probe2 and locks:
        last_n = tl[max(locks)[1]]["n"]
        got = sum(1 for x in probe2 if x == "ok")
        if got != min(last_n, 8) or (last_n < 8 and probe2[-1] != "timeout_wait"):
            bad.append((probe2_rows[-1]["k"], f"after a shrink to {last_n} with every object idle the pool handed out {got} objects at once", "capacity"))
    return bad[:1]


def mon_C06(run):
    """close(): final, prompt, leaves nothing behind"""
    if not run.has_close:
        return []
    # "those it held are released and detached": whatever the pool lets go of - at close() or
    # on return afterwards - goes through Manager::detach exactly once before it is destroyed
    bad = [(k, msg, "release-without-detach") for k, msg in object_history_violations(run)]
    if bad:
        return bad[:1]
    tl = resize_timeline(run)
    adm = admissions(run)
    closes = [e for e in tl.values() if e["kind"] == "close" and e["done"] is not None]
    if not closes:
        return []
    c = min(e["done"] for e in closes)     # first close() that returned
    was_closed = False
    rows = run.rows
    for row in rows:
        if row is None:
            continue
        k, d = row["k"], row["obs"]
        if d["closed"] == "1":
            was_closed = True
        elif was_closed:
            bad.append((k, "is_closed() went back to false", "reopen"))
        if k == c:
            woken = parse_list(d["woken"]) or []
            for j, (lbl, susp) in row["labels"].items():
                if run.ops[j]["kind"] == "get" and lbl == "get.acquire" and susp and str(j) not in woken:
                    bad.append((k, f"close() returned but waiting get #{j} was not woken", "not-woken"))
        if k > c:
            for e in row["ev"]:
                name, args = ev_args(e)
                if name == "handout":
                    g = int(args[0])
                    if adm.get(g, 0) > c:
                        bad.append((k, f"get #{g} obtained its slot after close() had returned and yielded an object", "get-after-close"))
                if name == "result" and run.ops[int(args[0])]["start"] > c:
                    r = args[1].split(":")[0]
                    if r not in ("closed", "no_runtime", "cancelled"):
                        bad.append((k, f"get #{args[0]} started after close() returned and ended with {r}", "get-after-close"))
            i = row["op"]
            op = run.ops[i]
            if op["kind"] == "ret" and op["start"] > c and d["lbl"] == "done" and row["idle"] is not None:
                if any(x.split(":")[0] == op["obj"] for x in row["idle"]):
                    bad.append((k, f"object {op['obj']} returned after close() was kept in the pool", "kept-returned"))
            if op["kind"] == "resize" and op["start"] > c and d["lbl"] == "done":
                b = rows[op["start"] - 1]
                if b is not None and all(r is not None and r["op"] == i for r in rows[op["start"] + 1:k + 1]):
                    for comp in ("max", "permits", "size"):
                        if b["obs"][comp] != d[comp] and "?" not in (b["obs"][comp], d[comp]):
                            bad.append((k, f"resize() after close() changed {comp}: {b['obs'][comp]} -> {d[comp]}", "resize-after-close"))
        # a resize() that takes the mutex after close() did has no effect, whenever it started
        i = row["op"]
        if i in tl and tl[i]["kind"] == "resize" and tl[i]["lock"] == k and k > 0 and rows[k - 1] is not None \
                and any(e["lock"] is not None and e["lock"] < k for e in tl.values() if e["kind"] == "close"):
            b = rows[k - 1]["obs"]
            for comp in ("max", "permits", "size"):
                if b[comp] != d[comp] and "?" not in (b[comp], d[comp]):
                    bad.append((k, f"resize() on the closed pool changed {comp}: {b[comp]} -> {d[comp]}", "resize-after-close"))
        if k >= c:
            # a closed pool keeps nothing - in every state after close() returned, not only at rest
            at_rest = all(lbl == "done" for lbl, _ in row["labels"].values())
            if row["idle"]:
                bad.append((k, f"closed pool{' at rest' if at_rest else ''} still holds idle objects {row['idle']}", "idle-retained"))
            elif d["max"] not in ("0", "?"):
                bad.append((k, f"closed pool{' at rest' if at_rest else ''} reports max_size {d['max']}", "max-after-close"))
        if bad:
            return bad[:1]
    return bad[:1]


class URun:
    """bookkeeping for unmanaged-pool traces"""

    def __init__(self, trace):
        self.t = trace
        self.cfg = cfg_of(trace)
        self.max0 = int(self.cfg.get("max", 0))
        self.init = int(self.cfg.get("init", 0))
        self.rt = self.cfg.get("rt") == "1"
        self.tmo = self.cfg.get("tmo", "n")
        self.ops = []
        self.rows = []
        self.has_resize = False
        self.has_close = False
        labels = {}
        next_id = self.init
        for k, (a, o, sec) in enumerate(trace.steps):
            ws = a.split()
            if ws[0] == "start":
                op = {"kind": ws[1], "spec": norm_tmo(ws[2:]) if ws[1] in ("uget", "uremove") else ws[2:], "obj": None, "start": k}
                if ws[1] in ("uadd", "utryadd"):
                    op["obj"] = str(next_id)
                    next_id += 1
                if ws[1] in ("uret", "utake"):
                    op["obj"] = ws[2]
                if ws[1] == "uclose":
                    self.has_close = True
                self.ops.append(op)
                i = len(self.ops) - 1
            else:
                i = int(ws[1])
            if o is None:
                self.rows.append(None)
                continue
            d = parse_obs(o)
            labels[i] = (d["lbl"], d["susp"] == "1")
            self.rows.append({"k": k, "action": a, "section": sec, "op": i, "obs": d, "labels": dict(labels),
                              "queue": parse_list(d["queue"]), "hands": parse_list(d["hands"]),
                              "returned": parse_list(d["returned"]), "dropped": parse_list(d["dropped"]),
                              "woken": parse_list(d["woken"]) or [], "ev": events(d), "known": next_id})


def u_blocked_ok(run, row, bad):
    d, k = row["obs"], row["k"]
    for j, (lbl, susp) in row["labels"].items():
        if not susp or str(j) in row["woken"]:
            continue
        kind = run.ops[j]["kind"]
        if kind in ("uget", "uremove") and (d["permits"] != "0" or d["closed"] != "0"):
            bad.append((k, f"get #{j} is blocked and was not woken although permits={d['permits']} closed={d['closed']}"))
        if kind == "uadd" and (d["spermits"] != "0" or d["sclosed"] != "0"):
            bad.append((k, f"add #{j} is blocked and was not woken although free slots={d['spermits']} closed={d['sclosed']}"))


def mon_C05(run):
    """unmanaged pool: conservation, max_size, add blocks iff full, status at rest"""
    if not isinstance(run, URun):
        return []
    bad = []
    prev = None
    for row in run.rows:
        if row is None:
            continue
        k, d = row["k"], row["obs"]
        lists = row["queue"] + row["hands"] + row["returned"] + row["dropped"]
        for x in set(lists):
            if lists.count(x) > 1:
                bad.append((k, f"object {x} is in two places: queue={row['queue']} hands={row['hands']} returned={row['returned']} dropped={row['dropped']}"))
        unfinished = [(j, lbl) for j, (lbl, _) in row["labels"].items() if lbl != "done"]
        holders = set()
        for j, lbl in unfinished:
            op = run.ops[j]
            if op["obj"] is not None:
                holders.add(op["obj"])
        free_holders = sum(1 for j, lbl in unfinished if lbl in ("uget.available", "utake.add_permits"))
        missing = [str(x) for x in range(row["known"]) if str(x) not in lists and str(x) not in holders]
        if len(missing) > free_holders:
            bad.append((k, f"objects {missing} are nowhere (not queued, held, handed back or dropped, and no operation can be holding them)"))
        if row["dropped"] and d["closed"] == "0":
            bad.append((k, f"objects {row['dropped']} were dropped while the pool is open"))
        in_pool = len(row["queue"]) + len(row["hands"])
        if in_pool > run.max0:
            bad.append((k, f"{in_pool} objects in the pool > max_size {run.max0}"))
        # at rest (no operation in progress, pool open) the free slots are exactly max_size - size:
        # add / try_add proceed as soon as a remove or take has freed a slot
        if not unfinished and d["closed"] == "0" and d.get("sclosed", "0") == "0" and "spermits" in d:
            if int(d["spermits"]) != run.max0 - in_pool:
                bad.append((k, f"at rest {d['spermits']} slot(s) are free for add(), but max_size {run.max0} - {in_pool} object(s) in the pool = {run.max0 - in_pool}"))
        u_blocked_ok(run, row, bad)
        for e in row["ev"]:
            name, args = ev_args(e)
            if name == "result" and not run.has_close and args[1].startswith("closed"):
                bad.append((k, f"{run.ops[int(args[0])]['kind'][1:]} #{args[0]} reported Closed on a pool that is never closed"))
            if name == "result" and prev is not None:
                op = run.ops[int(args[0])]
                if op["kind"] == "utryadd" and args[1].startswith("timeout") and prev["obs"]["spermits"] != "0":
                    bad.append((k, f"try_add reported Timeout although {prev['obs']['spermits']} slots were free"))
                if op["kind"] in ("utryadd", "uadd") and (args[1].startswith("timeout") or args[1].startswith("closed")):
                    if args[1].split(":")[1] != op["obj"]:
                        bad.append((k, f"a refused add did not hand its object {op['obj']} back: {e}"))
            if name == "status":
                mx, size, avail, waiting = (int(x) for x in args[1:5])
                i = row["op"]
                others = {j: v for j, v in row["labels"].items() if j != i}
                at_rest = all(lbl == "done" or (susp and str(j) not in row["woken"] and run.ops[j]["kind"] in ("uget", "uremove"))
                              for j, (lbl, susp) in others.items())
                if at_rest and d["closed"] == "0":
                    blocked = sum(1 for j, (lbl, _) in others.items() if lbl != "done")
                    want = (run.max0, in_pool, len(row["queue"]), blocked)
                    if (mx, size, avail, waiting) != want:
                        bad.append((k, f"status() at rest = (max_size {mx}, size {size}, available {avail}, waiting {waiting}) but ground truth is {want}"))
                if d["closed"] == "1" and all(lbl == "done" for j, (lbl, _) in others.items()):
                    # a closed pool at rest: what is still counted are the objects in callers' hands
                    want = (run.max0, in_pool, len(row["queue"]), 0)
                    if (mx, size, avail, waiting) != want:
                        bad.append((k, f"status() of the closed pool at rest = (max_size {mx}, size {size}, available {avail}, waiting {waiting}) but ground truth is {want}"))
        prev = row
        if bad:
            return bad[:1]
    return bad[:1]


def mon_C12(run):
    """unmanaged pool: no panic; close() is final"""
    if not isinstance(run, URun):
        return []
    bad = []
    close_done = None
    for row in run.rows:
        if row is None:
            continue
        k, d, i = row["k"], row["obs"], row["op"]
        if run.ops[i]["kind"] == "uclose" and d["lbl"] == "done" and close_done is None:
            close_done = k
            for j, (lbl, susp) in row["labels"].items():
                if susp and str(j) not in row["woken"]:
                    bad.append((k, f"close() returned but waiting call #{j} was not woken"))
        for e in row["ev"]:
            name, args = ev_args(e)
            if name == "oppanic":
                bad.append((k, f"call #{args[0]} ({run.ops[int(args[0])]['kind']}) panicked"))
            if name == "result":
                r = args[1].split(":")[0]
                if r not in ("ok", "added", "timeout", "closed", "no_runtime", "cancelled"):
                    bad.append((k, f"undocumented result {e}"))
                op = run.ops[int(args[0])]
                if close_done is not None and op["start"] > close_done:
                    if op["kind"] in ("uget", "utryget", "uremove", "utryremove") and r not in ("closed", "no_runtime"):
                        bad.append((k, f"{op['kind']} started after close() returned and ended with {args[1]}"))
                    if op["kind"] in ("uadd", "utryadd") and args[1] != f"closed:{op['obj']}":
                        bad.append((k, f"{op['kind']} started after close() returned and ended with {args[1]} instead of handing object {op['obj']} back with Closed"))
        if d["closed"] == "1" and all(lbl == "done" for lbl, _ in row["labels"].values()) and row["queue"]:
            bad.append((k, f"closed pool at rest still holds objects {row['queue']}"))
        op = run.ops[i]
        if close_done is not None and op["kind"] == "uret" and op["start"] > close_done and d["lbl"] == "done":
            if op["obj"] not in row["dropped"]:
                bad.append((k, f"object {op['obj']} returned after close() was not dropped"))
        if d.get("fault") != "0":
            bad.append((k, "fault"))
        u_blocked_ok(run, row, bad)
        if bad:
            return bad[:1]
    return bad[:1]


def kvs(line):
    return dict(w.split("=", 1) for w in line.split() if "=" in w)


def mon_C18(case):
    """get_pg_config(): independent re-statement of the documented rules on the harness's own
    input description (never looks at the model)"""
    i, o = kvs(case["in"]), case["out"] or ""
    bad = []
    if o.startswith("pgres panicked") or not o.startswith("pgres"):
        return [(0, f"get_pg_config panicked / gave no result: {o[:80]}")]
    for x in case["extra"]:
        if x.startswith("pgpool") and not x.rstrip().endswith("problems=-"):
            bad.append((0, "pool/manager sections or build error: " + x[:300]))
    if i.get("base") == "err":
        if o != "pgres err=invalid_url":
            bad.append((0, f"invalid url but result is {o[:60]}"))
        return bad[:1]
    def ne(v):
        return v not in ("-", "e", None)
    dbname = i["dbname"] if ne(i["dbname"]) else i["b.dbname"]
    if dbname == "-":
        want_err = "pgres err=dbname_missing"
    elif dbname == "e":
        want_err = "pgres err=dbname_empty"
    else:
        want_err = None
    if want_err:
        if o != want_err:
            bad.append((0, f"expected {want_err}, got {o[:60]}"))
        return bad[:1]
    if not o.startswith("pgres ok"):
        return [(0, f"valid configuration rejected: {o[:60]}")]
    r = kvs(o)
    if r["dbname"] != dbname:
        bad.append((0, f"dbname in effect {r['dbname']} != {dbname}"))
    user = i["user"] if ne(i["user"]) else i["b.user"]
    if not ne(user) and i["env"] != "-":
        user = i["env"]
    if r["user"] != user:
        bad.append((0, f"user in effect {r['user']} != {user}"))
    for f in ("password", "options", "app", "ssl", "cto", "ka", "kai", "tsa", "cb", "lbh"):
        want = i[f] if i[f] != "-" else i["b." + f]
        if r[f] != want:
            bad.append((0, f"option {f}: set to {i[f]} (url: {i['b.' + f]}) but {r[f]} is in effect"))
    def lst(v):
        return [] if v in ("-", "[]") else v.split(",")
    def host(h):
        return ("U:" if h.startswith("2f") else "T:") + h
    hosts = lst(i["b.hosts"]) + ([host(i["host"])] if i["host"] != "-" else []) + [host(h) for h in lst(i["hosts"])]
    if not hosts:
        hosts = ["U:2f72756e2f706f737467726573716c", "U:2f7661722f72756e2f706f737467726573716c", "U:2f746d70"]
    if lst(r["hosts"]) != hosts:
        bad.append((0, f"hosts {r['hosts']} != {','.join(hosts)}"))
    addrs = lst(i["b.hostaddrs"]) + ([i["hostaddr"]] if i["hostaddr"] != "-" else []) + lst(i["hostaddrs"])
    if lst(r["hostaddrs"]) != addrs:
        bad.append((0, f"hostaddrs {r['hostaddrs']} != {addrs}"))
    ports = lst(i["b.ports"]) + ([i["port"]] if i["port"] != "-" else []) + lst(i["ports"])
    if lst(r["ports"]) != ports:
        bad.append((0, f"ports {r['ports']} != {ports}"))
    return bad[:1]


class SRun:
    """a SyncWrapper trace: just the lines"""

    def __init__(self, trace):
        self.t = trace
        self.cfg = cfg_of(trace)
        self.lines = [(k, a.split(), parse_obs(o) if o else {}) for k, (a, o, sec) in enumerate(trace.steps)]
        self.has_resize = False
        self.has_close = False


def mon_C14(run):
    """SyncWrapper: an independent reading of the property on the implementation's own event
    stream (never looks at the model).  The stream is in real-time order; `b` = ran on a thread of
    the blocking pool, `a` = on an async thread (runtime worker or main thread)."""
    bad = []
    if run.cfg.get("create") != "b":
        bad.append((0, f"the wrapped value was constructed on an async thread (create={run.cfg.get('create')})"))
    running = None          # closure currently inside the value
    destroyed = 0
    dropped = False
    beh = {}                # task -> 'ok' | 'panic' (from the call)
    began, finished = set(), {}
    panicked_before = False
    ncalls = 0
    calls_after_poison = set()
    for k, ws, obs in run.lines:
        kind = ws[0]
        if kind == "call":
            beh[ncalls] = ws[1]
            if panicked_before:
                calls_after_poison.add(ncalls)
            ncalls += 1
        elif kind == "begin":
            i = int(ws[1])
            if ws[2] != "b":
                bad.append((k, f"closure {i} ran on the thread that awaited it / an async thread"))
            if running is not None:
                bad.append((k, f"closure {i} entered the value while closure {running} was still using it"))
            if destroyed:
                bad.append((k, f"closure {i} ran after the destructor"))
            running = i
            began.add(i)
        elif kind == "finish":
            i = int(ws[1])
            if running != i:
                bad.append((k, f"closure {i} finished but {running} was the one inside"))
            running = None
            finished[i] = ws[2] == "1"
            if ws[2] == "1":
                panicked_before = True
        elif kind == "destroy":
            destroyed += 1
            if ws[1] != "b":
                bad.append((k, "the destructor ran on the thread that dropped the wrapper / an async thread"))
            if running is not None:
                bad.append((k, f"the destructor ran while closure {running} was still using the value"))
            if destroyed > 1:
                bad.append((k, "the destructor ran twice"))
            if not dropped:
                bad.append((k, "the destructor ran before the wrapper was dropped"))
        elif kind == "dropw":
            dropped = True
        elif kind == "result":
            i, r = int(ws[1]), ws[2]
            if r == "aborted":
                bad.append((k, f"interact {i} returned Aborted"))
            if finished.get(i) is True and r != "panic":
                bad.append((k, f"closure {i} panicked but interact returned {r}"))
            if r == "ok" and finished.get(i) is not False:
                bad.append((k, f"interact {i} returned Ok although its closure did not complete"))
            if r == "panic" and finished.get(i) is False:
                bad.append((k, f"closure {i} returned normally but interact reported Panic"))
            if i in calls_after_poison and i in began:
                bad.append((k, f"closure {i} was run on a wrapper whose mutex was already poisoned"))
        elif kind == "probe":
            want = "1" if panicked_before else "0"
            if obs.get("poisoned") != want:
                bad.append((k, f"is_mutex_poisoned() = {obs.get('poisoned')} but a closure {'has' if panicked_before else 'has not'} panicked"))
        if bad:
            return bad[:1]
    if dropped and not run.t.error and destroyed != 1:
        bad.append((len(run.lines) - 1, f"the wrapper was dropped but the destructor ran {destroyed} times"))
    return bad[:1]


def mon_C15(case):
    """pools on SyncWrapper: independent reading of the property on the history the harness
    reports with every operation (operations and their real results so far)"""
    o = case["out"] or ""
    for x in case["extra"]:
        if x.startswith("spx backend"):
            return [(0, x[4:])]
    hist = next((x[len("spx history "):] for x in case["extra"] if x.startswith("spx history ")), None)
    if hist is None or not case["in"].startswith("sp get"):
        return []
    ops = [h.strip() for h in hist.split(";")]
    spoiled, held = set(), set()
    for h in ops[:-1]:
        if h.startswith("get=ok:"):
            held.add(h[7:])
        elif h.startswith("ret "):
            held.discard(h[4:])
        elif h.startswith("spoil "):
            _, cid, how = h.split()
            if how != "cancelled":  # (latepoison spoils: the closure panics before any later interaction can run)
                spoiled.add(cid)
    r = kvs(o)
    res = r.get("res", "")
    mx = int(r.get("max", "0"))
    if res.startswith("ok:"):
        cid = res[3:]
        if cid in spoiled:
            return [(0, f"connection {cid} was spoiled earlier ({hist}) and is handed out again")]
        if cid in held:
            return [(0, f"connection {cid} is handed out twice at once ({hist})")]
    else:
        if len(held) < mx:
            return [(0, f"get() failed with {res} although only {len(held)} of {mx} connections are checked out ({hist})")]
    if int(r.get("size", "0")) > mx:
        return [(0, f"size {r.get('size')} exceeds max_size {mx}")]
    return []


def mon_C17(case):
    """redis pool: independent reading of the property on the history the harness reports with
    every operation (operations, their real results, and every PING the scripted server saw
    with the answer it was told to give)"""
    o = case["out"] or ""
    for x in case["extra"]:
        if x.startswith("rpx ") and not x.startswith("rpx history"):
            return [(0, x[4:])]
    hist = next((x[len("rpx history "):] for x in case["extra"] if x.startswith("rpx history ")), None)
    if hist is None or not case["in"].startswith("rp get"):
        return []
    ops = [h.strip() for h in hist.split(";")]
    def parse_get(h):
        res, _, rest = h[4:].partition("[")
        pings = [p.split(":") for p in rest.rstrip("]").split(",") if p]
        return res, pings
    held, gone, idle, seen_pings, known = set(), set(), set(), [], set()
    for h in ops[:-1]:
        if h.startswith("get="):
            res, pings = parse_get(h)
            for cid, val, told in pings:
                seen_pings.append(val)
                idle.discard(cid)
                if told != "right":
                    gone.add(cid)
            if res.startswith("ok:"):
                held.add(res[3:])
                idle.discard(res[3:])
                known.add(res[3:])
        elif h.startswith("ret "):
            held.discard(h[4:])
            idle.add(h[4:])
        elif h.startswith("take "):
            held.discard(h[5:])
            gone.add(h[5:])
    res, pings = parse_get(ops[-1])
    r = kvs(o)
    mx = int(r.get("max", "0"))
    for cid, val, told in pings:
        if val in seen_pings:
            return [(0, f"PING value {val} had been used before on this pool ({hist})")]
        seen_pings.append(val)
        if cid not in idle:
            return [(0, f"connection {cid} was pinged but was not idle ({hist})")]
    accepted = [cid for cid, val, told in pings if told == "right"]
    rejected = [cid for cid, val, told in pings if told != "right"]
    if res.startswith("ok:"):
        cid = res[3:]
        if cid in gone or cid in rejected:
            return [(0, f"connection {cid} was rejected / taken earlier and is handed out ({hist})")]
        if cid in held:
            return [(0, f"connection {cid} handed out twice at once ({hist})")]
        if cid in known:
            # a reused connection: it must be the one whose ping was answered correctly in this get
            if accepted != [cid]:
                return [(0, f"connection {cid} was reused without a correctly echoed PING in this get ({hist})")]
        elif accepted:
            return [(0, f"connection {accepted[0]} passed its check but a new connection {cid} was handed out ({hist})")]
        if r.get("watched") != "0":
            return [(0, f"connection {cid} handed out with WATCH state still set on the server ({hist})")]
    else:
        if len(held) < mx:
            return [(0, f"get() failed with {res} although only {len(held)} of {mx} connections are checked out ({hist})")]
    return []


_PG_QUERIES = {"fast": None, "verified": "e",
               "clean": "434c4f534520414c4c3b205345542053455353494f4e20415554484f52495a4154494f4e2044454641554c543b20524553455420414c4c3b20554e4c495354454e202a3b2053454c4543542070675f61647669736f72795f756e6c6f636b5f616c6c28293b20444953434152442054454d503b20444953434152442053455155454e4345533b"}


def mon_C16(case):
    """postgres pool: an independent re-simulation (own bookkeeping of closed / taken clients and
    of every client's cache) of the history the harness reports with each operation, checked
    against what the real pool, clients and scripted server did in the current operation"""
    for x in case["extra"]:
        if x.startswith("pwx ") and not x.startswith("pwx history"):
            return [(0, x[4:])]
    hist = next((x[len("pwx history "):] for x in case["extra"] if x.startswith("pwx history ")), None)
    if hist is None:
        return []
    entries = [e.split(" => ") for e in hist.split(" ;; ")]
    method_q = None
    bad, taken, held, idle, known = set(), set(), set(), [], set()
    caches, used = {}, {}
    def cache(c):
        return caches.setdefault(c, {})
    verdict = []
    for n, (inp, out) in enumerate(entries):
        last = n == len(entries) - 1
        ws, r = inp.split(), kvs(out)
        def fail(msg):
            if last:
                verdict.append((0, msg + f" [{inp} => {out}]"))
        op = ws[1]
        if op == "cfg":
            c = kvs(inp)
            method_q = c.get("sql") if c["method"] == "custom" else _PG_QUERIES[c["method"]]
        elif op == "get":
            toks = ws[2:]
            qs = [q.split(":") for q in r.get("queries", "[]")[1:-1].split(",") if q]
            for k, (cid, sql) in enumerate(qs):
                if cid not in idle:
                    fail(f"client {cid} was sent a check query but was not idle")
                if cid in bad:
                    fail(f"closed client {cid} was sent a check query")
                if sql != method_q:
                    fail(f"check query {sql} sent to client {cid}, the method's is {method_q}")
                tok = toks[k] if k < len(toks) else "ok"
                if tok != "ok":
                    bad.add(cid)
            res = r.get("res", "")
            if res.startswith("ok:"):
                cid = res[3:]
                if cid in bad:
                    fail(f"client {cid} is closed / failed its check and is handed out")
                if cid in taken or cid in held:
                    fail(f"client {cid} is taken / already checked out and is handed out")
                if cid in known and method_q is not None and (not qs or qs[-1][0] != cid):
                    fail(f"client {cid} reused without its check query")
                # everything idle in front of it was examined and rejected (or it is new: all were)
                if cid in idle:
                    idle = idle[idle.index(cid) + 1:]
                else:
                    idle = []
                held.add(cid)
                known.add(cid)
            elif res != "timeout_wait":
                fail(f"get() failed with {res}")
            elif len(held) < int(r.get("max", "0")):
                fail(f"get() timed out with only {len(held)} clients checked out")
        elif op == "ret":
            held.discard(ws[2]); idle.append(ws[2])
        elif op == "take":
            held.discard(ws[2]); taken.add(ws[2])
        elif op == "kill":
            bad.add(ws[2])
        elif op == "prep":
            if "stmt" not in r:
                continue
            cid, key = ws[2], (ws[3], ws[4])
            c = cache(cid)
            want_rt = "0" if key in c else "1"
            if r["rt"] != want_rt:
                fail(f"prepare of a {'cached' if key in c else 'new'} key made {r['rt']} round trips")
            if key in c and c[key] is not None and r["stmt"] != c[key]:
                fail(f"cache hit returned statement {r['stmt']}, cached was {c[key]}")
            if key not in c:
                if r["stmt"] in used.setdefault(cid, set()):
                    fail(f"a miss returned statement {r['stmt']} that had been issued before")
                if not r["stmt"].startswith(cid + ":"):
                    fail(f"statement {r['stmt']} is not of client {cid}")
            c[key] = r["stmt"]
            used.setdefault(cid, set()).add(r["stmt"])
            if r["csize"] != str(len(c)):
                fail(f"size() = {r['csize']}, cached keys = {len(c)}")
        elif op == "prep2":
            if "rt" not in r:
                continue
            cid, key = ws[2], (ws[3], ws[4])
            c = cache(cid)
            if r["rt"] != ("0" if key in c else "2"):
                fail(f"two concurrent prepares of a {'cached' if key in c else 'new'} key made {r['rt']} round trips")
            c.setdefault(key, None)
            if r["csize"] != str(len(c)):
                fail(f"size() = {r['csize']} after two concurrent prepares of one key, cached keys = {len(c)}")
        elif op == "rm":
            c = cache(ws[2]); c.pop((ws[3], ws[4]), None)
            if r.get("csize") != str(len(c)):
                fail(f"size() = {r.get('csize')} after remove, cached keys = {len(c)}")
        elif op == "clear":
            cache(ws[2]).clear()
            if r.get("csize") != "0":
                fail("size() != 0 after clear")
        elif op == "regclear":
            for cid in list(held) + idle:
                cache(cid).clear()
        elif op == "regrm":
            for cid in list(held) + idle:
                cache(cid).pop((ws[2], ws[3]), None)
        elif op == "sizes":
            def lst(v):
                return dict(x.split(":") for x in v[1:-1].split(",") if x)
            for name, ids in (("held", held), ("taken", taken)):
                got = lst(r.get(name, "[]"))
                want = {cid: str(len(cache(cid))) for cid in ids}
                if got != want:
                    fail(f"cache sizes of {name} clients {got}, expected {want} (registry operations must reach exactly the pool's clients)")
            got_idle = sorted(x for x in r.get("idle", "[]")[1:-1].split(",") if x)
            want_idle = sorted(str(len(cache(cid))) for cid in idle if True)
            # idle clients that are closed are still in the queue until a get examines them
            if got_idle != sorted(want_idle, key=str):
                fail(f"cache sizes of idle clients {got_idle}, expected {sorted(want_idle)}")
    return verdict[:1]


def mon_C19(case):
    """redis configs: independent re-statement of the property on the harness's own input
    description and the implementation's answer (never looks at the model)"""
    ws = case["in"].split()
    o = case["out"] or ""
    if o.startswith("rdout panic") or not o.startswith("rdout"):
        return [(0, f"panicked / gave no result on {case['in'][:120]}: {o[:60]}")]
    for x in case["extra"]:
        if "DIFFER" in x:
            return [(0, "round trip changed a value: " + x[:300])]
        if x.startswith("rdx get-succeeded"):
            return [(0, "a connection was established although every named server hangs up")]
    fam = ws[1]
    if fam == "serde" and len(ws) > 2 and ws[2] == "partial":
        # rdin serde partial <flavour> <u> <c> <pool|-> <flag|-> <name|->
        fl, u, c, pool, flag, name = ws[3:9]
        if not o.startswith("rdout serde partial u="):
            return [(0, f"{fl} config document (url(s) {u}, connection(s) {c}, pool {pool}) was not accepted: {o[:80]}")]
        r = kvs(o)
        want = {"u": u, "c": c, "pool": pool,
                "flag": "-" if fl == "redis" else ("0" if flag == "-" else flag),
                "name": (("mymaster" if name == "-" else name) if fl == "sentinel" else "-"),
                "build": {("1", "0"): "urls", ("0", "1"): "conns", ("0", "0"): "default", ("1", "1"): "both"}[(u, c)]}
        what = {"u": "url(s) present", "c": "connection(s) present", "pool": "pool.max_size",
                "flag": "read_from_replicas / server_type = replica", "name": "master_name", "build": "builder()"}
        for k2, v in want.items():
            if r.get(k2) != v:
                return [(0, f"{fl} config read from a document with url(s)={u} connection(s)={c} pool={pool} flag={flag} master_name={name}: "
                            f"{what[k2]} is {r.get(k2)}, expected {v} (omitted keys take the documented defaults, nothing is conjured)")]
        return []
    if fam == "node":
        # rdin node <arm> <present> <db> <user|-> <pass|->: what the fake master must have seen
        arm, present, db, user, pw = ws[2:7]
        route = {"u": "from_urls(..).with_node_connection_info(..)", "s": "urls", "c": "connections"}.get(arm, arm)
        if not o.startswith("rdout node auth="):
            return [(0, f"sentinel config (sentinels named by {route}): pool could not be built / used: {o[:80]}")]
        r = kvs(o)
        want_auth = "-" if (present != "1" or pw == "-") else f"{user}:{pw}"
        want_db = db if present == "1" else "0"
        if r.get("auth") != want_auth or r.get("db") != want_db:
            return [(0, f"sentinel config with node_connection_info (db {db}, user {user}, password {pw}; sentinels named by {route}): "
                        f"the monitored server was sent AUTH {r.get('auth')} / SELECT {r.get('db')}, expected AUTH {want_auth} / SELECT {want_db}")]
        if r.get("sentinel") != "asked":
            return [(0, f"sentinel config (sentinels named by {route}): the named sentinel {r.get('sentinel')}")]
        return []
    if fam == "cfg":
        i = kvs(case["in"])
        def lst(v):
            return None if v == "-" else [x for x in v[1:-1].split(",") if x]
        u, c = lst(i["u"]), lst(i["c"])
        if u is not None and c is not None:
            want = "rdout err both"
        elif u is not None:
            want = "rdout err redis" if ("bad" in u or i["au"] == "0") else ("ok", sorted(set(u)))
        elif c is not None:
            want = "rdout err redis" if i["ac"] == "0" else ("ok", sorted(set(c)))
        else:
            want = ("ok", ["D"])
        if isinstance(want, str):
            if o != want:
                return [(0, f"{ws[2]} config u={i['u']} c={i['c']}: expected {want[6:]}, got {o[6:60]}")]
            return []
        if not o.startswith("rdout ok"):
            return [(0, f"{ws[2]} config u={i['u']} c={i['c']} rejected: {o[:60]}")]
        r = kvs(o)
        if r["servers"] != "unobserved" and r["servers"] != "[" + ",".join(want[1]) + "]":
            return [(0, f"{ws[2]} config u={i['u']} c={i['c']}: the pool contacted {r['servers']}, named are {want[1]}")]
        wmax = i["pool"] if i["pool"] != "-" else i["dflt"]
        if r["max"] != wmax:
            return [(0, f"pool section {i['pool']} (default {i['dflt']}) but max_size {r['max']}")]
        wqm = i.get("qm", "-") if i.get("qm", "-") != "-" else "fifo"
        if (r.get("qm") != wqm and i.get("qmobs") != "0") or r.get("wait") != i.get("wait", "-"):
            return [(0, f"pool section (queue_mode {i.get('qm')}, wait timeout {i.get('wait')}) did not reach the pool: it has queue_mode {r.get('qm')}, wait {r.get('wait')}")]
        return []
    if fam == "conv":
        # field-wise: `there` carries the same fields, `back` equals the original
        there, back = o.split(" there=", 1)[1].split(" back=")
        orig = " ".join(ws[3:])
        if back != orig:
            return [(0, f"{ws[2]}: round trip {orig} -> {there} -> {back}")]
        def strip_tls(a):
            # the redis side prints one more component (tls_params) on tls addresses
            p = a.split(" ")
            if p[0].startswith("tls:") and p[0].count(":") == 4:
                p[0] = p[0].rsplit(":", 1)[0]
            return " ".join(p)
        if strip_tls(there) != strip_tls(orig):
            return [(0, f"{ws[2]}: converted value {there} differs from {orig}")]
        return []
    if fam == "serde":
        if ws[2] == "pc":
            orig = " ".join(ws[3:])
            back = o.split(" back=", 1)[1]
            if back != orig:
                return [(0, f"PoolConfig {orig} came back as {back}")]
        if ws[2] == "doc":
            want = _c19_doc(ws[4:], ws[3] == "1")
            back = o.split(" back=", 1)[1]
            if back != want:
                return [(0, f"document {' '.join(ws[4:])[:200]} ({'string' if ws[3] == '1' else 'typed'} source) should read as {want}, got {back}")]
        return []
    return []


def _c19_doc(toks, stringly):
    """the documented reading of a PoolConfig document: max_size required, timeouts default to
    none (each of wait / create / recycle: absent or null = none, else both secs and nanos),
    queue_mode defaults to Fifo; anything ill-typed is an error; unknown keys are ignored"""
    pos = [0]
    def tree():
        t = toks[pos[0]]
        pos[0] += 1
        if t == "{":
            d = {}
            while toks[pos[0]] != "}":
                k = toks[pos[0]]
                pos[0] += 1
                v = tree()
                d.setdefault(k, v)
            pos[0] += 1
            return d
        if t == "N":
            return None
        if t.startswith("n"):
            return int(t[1:])
        return "" if t == "se" else bytes.fromhex(t[1:]).decode("utf-8", "replace")
    doc = tree()
    class Bad(Exception):
        pass
    def num(v):
        if stringly:
            if isinstance(v, str) and v.isdigit():
                return int(v)
        elif isinstance(v, int) and not isinstance(v, bool):
            return v
        raise Bad()
    def dur(v):
        if v is None:
            return "-"
        if not isinstance(v, dict) or "secs" not in v or "nanos" not in v:
            raise Bad()
        return f"{num(v['secs'])}.{num(v['nanos'])}"
    try:
        if not isinstance(doc, dict) or "max_size" not in doc:
            raise Bad()
        m = num(doc["max_size"])
        ts = ["-", "-", "-"]
        if "timeouts" in doc:
            t = doc["timeouts"]
            if not isinstance(t, dict):
                raise Bad()
            ts = [dur(t[k]) if k in t else "-" for k in ("wait", "create", "recycle")]
        q = "fifo"
        if "queue_mode" in doc:
            q = {"Fifo": "fifo", "Lifo": "lifo"}.get(doc["queue_mode"])
            if q is None:
                raise Bad()
        return f"{m} {ts[0]} {ts[1]} {ts[2]} {q}"
    except Bad:
        return "error"


def signature(prop, run, model_lines, diverged, k, msg, kind):
    """known-finding signature of a violation, or '' (see known_findings.txt).  A violation is
    attributed to a known finding only if the model of the pinned code reproduces the whole
    history step by step AND shows the documented mechanism at the violating step."""
    if diverged or model_lines is None or k >= len(model_lines):
        return ""
    m = parse_obs(model_lines[k]) if model_lines[k].startswith("obs ") else {}
    debt = int(m.get("debt", "0") or 0)
    if prop == "C07" and kind in ("over-limit", "capacity") and debt > 0:
        return "shrink-undercollect"
    if prop == "C11" and kind == "create-over-max" and debt > 0:
        return "shrink-undercollect"
    return ""


def hooks_of(run):
    def n(v):
        return 0 if v in ("-", None) else len(v)
    return n(run.cfg.get("pre")), n(run.cfg.get("postr")), n(run.cfg.get("postc"))


def mon_C04(run):
    """per get(): the call log follows the grammar 'attempts on idle objects, each a prefix
    of pre hooks / recycle / post hooks in registration order on one object with unchanged
    metrics, a failed attempt ends in detach+destroy of exactly that object, the hand-out
    comes only after a complete all-ok sequence (or create + all post_create hooks)';
    results are the documented variants with their causes"""
    bad = object_history_violations(run)
    if bad:
        return bad[:1]
    npre, npostr, npostc = hooks_of(run)
    nrec = npre + 1 + npostr
    st = {}   # per get op
    prev_lbl = {}
    for row in run.rows:
        if row is None:
            continue
        k, i = row["k"], row["op"]
        a = row["action"].split()
        if run.ops[i]["kind"] == "get":
            S = st.setdefault(i, {"state": "idle", "cur": None, "m0": None, "expect": 0, "ocs": [], "fail": None})
            if a[0] == "step" and a[2] not in ("run", "pending"):
                pl = prev_lbl.get(i, "")
                if pl in ("create", "recycle") or "[" in pl:
                    S["ocs"].append(a[2])
                    if a[2] != "ok":
                        S["fail"] = (pl, a[2])
        for e in row["ev"]:
            name, args = ev_args(e)
            if name in ("status", "pred", "retained", "resized", "closed", "taken", "oppanic"):
                continue
            g = int(args[0])
            if g >= len(run.ops) or run.ops[g]["kind"] != "get":
                continue
            S = st.setdefault(g, {"state": "idle", "cur": None, "m0": None, "expect": 0, "ocs": [], "fail": None})
            def err(msg):
                bad.append((k, f"get #{g}: {msg} (event {e}, state {S['state']})"))
            if name in ("pre_recycle", "recycle", "post_recycle", "create", "post_create"):
                S["slot"] = True
            if name in ("pre_recycle", "recycle", "post_recycle"):
                kk = int(args[1])
                obj = args[2]
                idx = kk if name == "pre_recycle" else (npre if name == "recycle" else npre + 1 + kk)
                if idx == 0:
                    if S["state"] != "idle":
                        err("a new recycling attempt starts while another is unfinished")
                    S.update(state="recycling", cur=obj.split(":")[0], m0=obj, expect=1, ocs=[], fail=None)
                else:
                    if S["state"] != "recycling" or obj != S["m0"] or idx != S["expect"]:
                        err(f"callback out of registration order or on another object / changed metrics (expected index {S['expect']} on {S['m0']})")
                    if S["fail"]:
                        err(f"callback entered after {S['fail']} failed")
                    S["expect"] = idx + 1
            elif name == "create":
                if S["state"] != "idle":
                    err("Manager::create called while an object is in hand")
                S.update(state="creating", cur=None, m0=None, expect=0, ocs=[], fail=None)
            elif name == "post_create":
                kk, obj = int(args[1]), args[2]
                if S["state"] not in ("creating", "postcreate") or kk != S["expect"]:
                    err("post_create hook out of order")
                if S["fail"]:
                    err(f"callback entered after {S['fail']} failed")
                f = obj.split(":")
                if f[1] != "0" or f[3] != "-":
                    err("post_create hook saw metrics of a used object")
                if S["cur"] not in (None, f[0]):
                    err("post_create hooks on different objects")
                S.update(state="postcreate", cur=f[0], m0=obj, expect=kk + 1)
            elif name == "detach":
                if S["state"] not in ("recycling", "postcreate", "creating") or (S["cur"] is not None and args[1] != S["cur"]):
                    err("detach of an object that is not the one in hand")
                S.update(state="detached", cur=args[1])
            elif name == "destroy":
                if S["state"] != "detached" or args[1] != S["cur"]:
                    err("destroy without the preceding detach of the same object")
                S.update(state="idle", cur=None)
            elif name == "handout":
                obj = args[1].split(":")
                if any(o != "ok" for o in S["ocs"]):
                    err(f"object handed out although a step of its preparation did not succeed: {S['ocs']}")
                if S["state"] == "recycling":
                    m0 = S["m0"].split(":")
                    if S["expect"] != nrec:
                        err(f"handed out after {S['expect']} of {nrec} recycling callbacks")
                    if obj[0] != m0[0] or int(obj[1]) != int(m0[1]) + 1 or obj[2] != m0[2] or obj[3] == "-":
                        err(f"metrics at hand-out {args[1]} do not follow from {S['m0']}")
                elif S["state"] in ("creating", "postcreate"):
                    if S["expect"] != npostc:
                        err(f"handed out after {S['expect']} of {npostc} post_create hooks")
                    if obj[1] != "0" or obj[3] != "-":
                        err("fresh object handed out with used metrics")
                else:
                    err("hand-out without a preceding create / recycle")
                S["state"] = "done"
            elif name == "result":
                r = args[1].split(":")[0]
                if r == "ok" and S["state"] != "done":
                    err("Ok without a hand-out")
                if r == "backend" and not (S["state"] == "creating" and S["fail"] == ("create", "err")):
                    err("Backend error that is not a creation error")
                if r == "post_create_hook" and not (S["fail"] and S["fail"][0].startswith("post_create") and S["fail"][1] == "err" and S["state"] == "idle"):
                    err("PostCreateHook error without a failed post_create hook whose object was discarded")
                if r == "timeout_recycle":
                    err("Timeout(Recycle) returned")
                if r == "timeout_wait" and S.get("slot"):
                    err("Timeout(Wait) returned by a get that had already obtained its slot (a create / recycle was under way)")
                if r == "timeout_create" and not (S["state"] == "creating" and S["fail"] and S["fail"][0] == "create" and S["fail"][1] in ("pending", "deadline")):
                    if not (S["state"] == "creating"):
                        err("Timeout(Create) returned although Manager::create was not the call that timed out")
                if r not in ("ok", "backend", "post_create_hook", "timeout_wait", "timeout_create", "closed", "no_runtime", "cancelled", "panicked"):
                    err("undocumented result")
                if r != "ok" and S["state"] in ("recycling", "postcreate", "detached"):
                    err("the call ended while an object was still in its hands")
        prev_lbl[i] = row["obs"]["lbl"]
        if bad:
            return bad[:1]
    return bad[:1]


def mon_C13(run):
    """metrics vs. the harness's own per-object hand-out bookkeeping"""
    bad = []
    handouts = {}      # id -> number of hand-outs so far
    last = {}          # id -> metrics string at the last hand-out
    born = {}          # id -> creation instant as first shown (to a post_create hook)
    for row in run.rows:
        if row is None:
            continue
        k = row["k"]
        for e in row["ev"]:
            name, args = ev_args(e)
            if name == "handout":
                oid, rc, created, rec = args[1].split(":")
                n = handouts.get(oid, 0)
                if int(rc) != n:
                    bad.append((k, f"object {oid} handed out for the {n + 1}. time with recycle_count {rc}"))
                if (rec == "-") != (n == 0):
                    bad.append((k, f"object {oid}: hand-out #{n + 1} reports recycled={rec}"))
                if oid in born and created != born[oid]:
                    bad.append((k, f"object {oid}: the creation instant shown to its post_create hook was {born[oid]}, its hand-out reports {created}"))
                if oid in last:
                    _, _, c0, r0 = last[oid].split(":")
                    if created != c0:
                        bad.append((k, f"object {oid}: created instant changed {c0} -> {created}"))
                    if r0 != "-" and int(rec) < int(r0):
                        bad.append((k, f"object {oid}: recycled instant moved backwards {r0} -> {rec}"))
                if rec != "-" and (int(rec) < int(created) or int(rec) != k):
                    bad.append((k, f"object {oid}: recycled instant {rec} is not the instant of this hand-out (step {k}, created {created})"))
                handouts[oid] = n + 1
                last[oid] = args[1]
            elif name in ("pre_recycle", "recycle", "post_recycle", "pred"):
                obj = args[2]
                oid = obj.split(":")[0]
                if last.get(oid) != obj:
                    bad.append((k, f"{name} saw metrics {obj}, the object's last hand-out reported {last.get(oid)}"))
            elif name == "accessor":
                # raised by the harness (show_obj): Metrics::age() / last_used() read outside
                # the two readings of the field they are computed from
                bad.append((k, f"Metrics::{args[2]}() of object {args[1]} disagrees with the "
                               f"created / recycled instants it is computed from"))
            elif name == "post_create":
                f = args[2].split(":")
                if f[1] != "0" or f[3] != "-":
                    bad.append((k, f"post_create hook saw used metrics {args[2]}"))
                if born.setdefault(f[0], f[2]) != f[2]:
                    bad.append((k, f"object {f[0]}: creation instant changed between post_create hooks: {born[f[0]]} -> {f[2]}"))
        for x in (row["idle"] or []):
            oid = x.split(":")[0]
            if last.get(oid) != x:
                bad.append((k, f"idle object carries metrics {x}, its last hand-out reported {last.get(oid)}"))
        if bad:
            return bad[:1]
    return bad[:1]


def mon_C08(run):
    """reference queue kept from the return log; lazy creation; every callback runs inside
    the operation that caused it"""
    bad = []
    lifo = run.cfg.get("mode") == "lifo"
    q = []
    prev_lbl = {}
    attempt_started = {}
    for row in run.rows:
        if row is None:
            continue
        k, i, d = row["k"], row["op"], row["obs"]
        op = run.ops[i]
        lbl = d["lbl"]
        pl = prev_lbl.get(i)
        stepped = row["action"].startswith("step")
        # a return that has pushed its object back
        if op["kind"] == "ret" and stepped and pl == "ret.lock" and lbl == "ret.add_permits":
            q.append(op["obj"])
        for e in row["ev"]:
            name, args = ev_args(e)
            if name in ("status", "oppanic"):
                continue
            if int(args[0]) != i:
                bad.append((k, f"{e} was emitted while operation #{i} was running: user code ran outside the operation that caused it"))
            if name == "create" and q:
                bad.append((k, f"Manager::create called although {q} are idle"))
        if op["kind"] == "get" and stepped and pl == "get.pop":
            # what did the get take out of the queue?
            firsts = [ev_args(e) for e in row["ev"] if e.split("(")[0] in ("pre_recycle", "recycle")]
            took = firsts[0][1][2].split(":")[0] if firsts else None
            if took is None and lbl in ("unready.lock",) and row["idle"] is not None:
                # recycle rejected without a callback cannot happen any more; treat as unknown
                took = None
            if took is not None:
                want = q[-1] if lifo else q[0]
                if not q or took != want:
                    bad.append((k, f"{'Lifo' if lifo else 'Fifo'} get #{i} tried object {took}; the reference queue (oldest first) is {q}"))
                if took in q:
                    q.remove(took)
            elif q and lbl == "create":
                bad.append((k, f"get #{i} went to create although {q} are idle"))
        for e in row["ev"]:
            name, args = ev_args(e)
            if name == "retained":
                removed = [x for x in e[e.index("[") + 1:e.rindex("]")].split(",") if x]
                q = [x for x in q if x not in removed]
            if name == "detach" and op["kind"] in ("resize", "close"):
                if not q or q[0] != args[1]:
                    bad.append((k, f"shrink released object {args[1]}; the front of the reference queue {q} was expected"))
                if args[1] in q:
                    q.remove(args[1])
        if row["idle"] is not None and [x.split(":")[0] for x in row["idle"]] != q:
            bad.append((k, f"idle queue {row['idle']} differs from the reference queue {q}"))
        prev_lbl[i] = lbl
        if bad:
            return bad[:1]
    return bad[:1]


def _with_lock_probe(mon):
    """managed-pool monitors: the harness's probe found the slots mutex held inside a Manager::detach
    call that the model (and the unchanged code) make with the mutex released"""
    def f(run):
        rows = getattr(run, "rows", None)
        if rows:
            for row in rows:
                if row is None:
                    continue
                for e in row["ev"]:
                    if e.startswith("atomicity(") and "locked@" in e:
                        where = e[e.index("locked@") + 7:].rstrip(")")
                        return [(row["k"], f"Manager::detach was called with the slots mutex held ({where}): there the pool lets go of a "
                                           f"single object after its books are done and the mutex is released - a detach that looks at the pool "
                                           f"(status(), returning another object) dead-locks, one that panics poisons the pool for every later call")]
        return mon(run)
    return f


MONITORS = {"C16": mon_C16, "C17": mon_C17, "C14": mon_C14, "C15": mon_C15, "C18": mon_C18, "C19": mon_C19, "C05": mon_C05, "C12": mon_C12, "C08": mon_C08, "C13": mon_C13, "C04": mon_C04, "C07": mon_C07, "C06": mon_C06, "C09": mon_C09, "C03": mon_C03, "C10": mon_C10, "C01": mon_C01, "C02": mon_C02, "C11": mon_C11}
for _pid in ("C01", "C02", "C03", "C04", "C06", "C07", "C08", "C09", "C10", "C11", "C13"):
    MONITORS[_pid] = _with_lock_probe(MONITORS[_pid])
