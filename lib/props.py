"""Per-property registration: Lean obligations, correspondence projection, generator
profiles, monitors."""

ALLOWED_AXIOMS = {"propext", "Classical.choice", "Quot.sound"}

TRUSTED_COMMON = [
    "Lean 4.33.0 kernel; axioms of every listed theorem are printed by `#print axioms` on each run and must be a subset of {propext, Classical.choice, Quot.sound}; no sorry/admit/native_decide/bv_decide/own axioms",
    "hand-written model lean/DeadpoolVerif/Model/*.lean; tied to /repo by the correspondence run of this check (h-core harness: real code under a baton scheduler, every atomic step compared with the model's executable step function)",
    "tokio::sync::Semaphore modelled as Sem (each call atomic), std::sync::Mutex mutual exclusion, sequentially consistent interleaving of the atomic steps (the only weaker accesses are Relaxed RMWs on single counters)",
    "Rust drop order of async-fn state (inner future, then locals in reverse declaration order); tokio timers fire after their deadline and not before",
    "harness + bin/check diff + verif hooks (--cfg deadpool_verif) in /repo/src",
]

# components of the observation vector
SEM = ["permits", "closed", "woken"]
CNT = ["users", "size", "max"]
BASE = ["op", "lbl", "susp", "fault"]

HOOK_COMMITS = ["ec62fa8"]

# properties not (yet) claimed, with the reason
_WIP = "not claimed yet: model/harness for this property is still being built in this round (see DESIGN.md §10)"
NOT_CLAIMED = {f"C{n:02d}": _WIP for n in range(1, 20)}

PROPS = {
    "C01": {
        "title": "Managed pool never has more than max_size live objects",
        "modules": ["DeadpoolVerif.Props.C01"],
        "theorems": [
            "DeadpoolVerif.C01_live_le_max", "DeadpoolVerif.C01_pooled_le_max",
            "DeadpoolVerif.C01_holders_le_max", "DeadpoolVerif.C01_create_within_limit",
            "DeadpoolVerif.C01_size_le_max",
            # shared invariants it rests on
            "DeadpoolVerif.run_acct", "DeadpoolVerif.run_norz",
        ],
        "projection": BASE + SEM + ["size", "max", "idle", "out", "live"],
        "profiles": {"quick": [("noresize", 400), ("cancel-nr", 300), ("faults", 300)],
                     "thorough": [("noresize", 6000), ("cancel-nr", 5000), ("faults", 5000), ("retain-nr", 2000), ("timeouts-nr", 2000)]},
        "monitor": "C01",
        "design_ref": "DESIGN.md §6 C01",
        "level_text": "Machine-checked Lean 4 theorems (C01_live_le_max and corollaries) over an executable small-step model of the managed pool: for every list of actions without resize/close - any number of tasks, any interleaving of atomic steps, any callback outcome incl. panic/never/cancel, both queue modes, any hooks, any max_size - objects existing or being created never exceed max_size. The model is tied to the current source by replaying, on every run, thousands of controlled-scheduler traces of the real code step by step on the model (projection permits/closed/woken/size/max/idle/out/live/labels) and by a ground-truth monitor on the implementation.",
        "level_note": "Proof is about the hand-written model; the tie to the code is the correspondence run (differential, not exhaustive). Assumes tokio Semaphore as modelled (Sem), SC interleaving of atomic steps, Rust async drop order. Axioms: propext, Classical.choice, Quot.sound only.",
    },
    "C02": {
        "title": "No capacity is ever lost and no waiting caller is stranded",
        "modules": ["DeadpoolVerif.Props.C02"],
        "theorems": [
            "DeadpoolVerif.C02_capacity_restored", "DeadpoolVerif.C02_probe_step",
            "DeadpoolVerif.C02_no_stranded", "DeadpoolVerif.C02_release_wakes_oldest",
            "DeadpoolVerif.C02_woken_completes", "DeadpoolVerif.C02_no_fault",
            "DeadpoolVerif.C02_progress",
            "DeadpoolVerif.run_acct", "DeadpoolVerif.run_norz", "DeadpoolVerif.run_link",
        ],
        "projection": BASE + SEM + CNT + ["out", "ev"],
        "profiles": {"quick": [("noresize", 500), ("cancel-nr", 400), ("faults", 400), ("timeouts-nr", 200)],
                     "thorough": [("noresize", 8000), ("cancel-nr", 8000), ("faults", 8000), ("timeouts-nr", 4000), ("cancel", 3000)]},
        "monitor": "C02",
        "design_ref": "DESIGN.md §6 C02",
        "level_text": "Machine-checked Lean 4 theorems: after any resize-free history in which every operation finished and every object came back, all max_size tokens are free, no waiter is registered and users = 0 (C02_capacity_restored, from the token-conservation invariant Acct and the waiter-linkage invariant Link, both proved for every reachable state); a blocked, un-woken waiter implies permits = 0 and not closed (C02_no_stranded); a released token goes to the oldest waiter at once and a woken waiter completes at its next poll (C02_release_wakes_oldest, C02_woken_completes); no counter underflows (C02_no_fault); every unfinished operation is enabled or waits for the mutex whose owner is enabled (C02_progress: no deadlock). Tied to the code by the per-step correspondence run (incl. the waker flag of every blocked getter) and by an end-of-history capacity probe through the public API on the real pool.",
        "level_note": "Proof is about the model. The wake-up itself is tokio's (validated by the flag-waker component `woken`, not proved). Fairness of the scheduler is outside the model: progress is stated as enabledness. Axioms: propext, Classical.choice, Quot.sound only.",
    },
    "C11": {
        "title": "status() is exact at rest and never nonsensical",
        "modules": ["DeadpoolVerif.Props.C11"],
        "theorems": [
            "DeadpoolVerif.C11_exact_at_rest", "DeadpoolVerif.C11_plausible",
            "DeadpoolVerif.C11_size_le_max_unless_resized",
            "DeadpoolVerif.run_acct", "DeadpoolVerif.run_norz", "DeadpoolVerif.run_link",
        ],
        "projection": BASE + SEM + CNT + ["idle", "out", "live", "ev"],
        "profiles": {"quick": [("status", 700), ("noresize", 300), ("cancel", 300)],
                     "thorough": [("status", 10000), ("noresize", 4000), ("cancel", 4000), ("resize", 3000), ("close", 3000)]},
        "monitor": "C11",
        "design_ref": "DESIGN.md §6 C11",
        "level_text": "Machine-checked Lean 4 theorems: in every reachable state of the model (any history incl. failures, cancellations, takes, retains, resizes, close) in which no operation is in progress except callers blocked in get(), the tuple status() computes equals (max_size, idle+out, idle, number of blocked callers) (C11_exact_at_rest); in every reachable state the tuple is plausible: size <= objects existing or being created, available <= size, waiting <= callers inside get(), no counter wrapped, size <= max_size + shrink residue and size <= max_size if never resized (C11_plausible, C11_size_le_max_unless_resized). Tied to the code by the per-step correspondence run (status events are part of the compared event stream) and a ground-truth monitor that recomputes the expected figures from the harness's own object/operation bookkeeping, with quiescent points inserted by the generator.",
        "level_note": "`users` is read with Relaxed ordering while the slots mutex is held; the model treats status() as one atomic step (per-location coherence of a single counter). max_size ground truth for the monitor = the resize that took the mutex last. Axioms: propext, Classical.choice, Quot.sound only.",
    },
    "C10": {
        "title": "Timeouts, non-blocking mode and missing runtimes behave as documented",
        "modules": ["DeadpoolVerif.Props.C10"],
        "theorems": [
            "DeadpoolVerif.C10_zero_wait_never_waits", "DeadpoolVerif.C10_zero_wait_decides",
            "DeadpoolVerif.C10_wait_deadline", "DeadpoolVerif.C10_deadline_needs_timeout",
            "DeadpoolVerif.C10_create_timeout_releases", "DeadpoolVerif.C10_recycle_timeout_is_reject",
            "DeadpoolVerif.C10_no_runtime", "DeadpoolVerif.C10_build", "DeadpoolVerif.C10_no_timeout_recycle",
            "DeadpoolVerif.run_acct", "DeadpoolVerif.run_link",
        ],
        "projection": BASE + SEM + CNT + ["idle", "out", "live", "ev"],
        "extra": ["table", "build-table"],
        "profiles": {"quick": [("timeouts", 500), ("timeouts-nr", 300)],
                     "thorough": [("timeouts", 10000), ("timeouts-nr", 6000), ("cancel", 3000)]},
        "monitor": "C10",
        "design_ref": "DESIGN.md §6 C10",
        "level_text": "Machine-checked Lean 4 theorems about the model's get(): a zero-wait get is never suspended waiting for a slot in any reachable state (C10_zero_wait_never_waits, invariant) and its acquisition step decides at once between Closed / Timeout(Wait) / slot (C10_zero_wait_decides); when a finite wait deadline passes, an already assigned slot wins, otherwise Timeout(Wait) and the waiter is un-registered (C10_wait_deadline); a create timeout yields Timeout(Create) and the next unwind step releases the slot; a recycle timeout is exactly a rejected object; without runtime per-call recycle / finite wait / create timeouts give NoRuntimeSpecified without touching semaphore, queue or objects, and build() fails iff a timeout is configured without runtime (C10_no_runtime, C10_build); Timeout(Recycle) is never produced. Deadline orderings are the interleavings of the `deadline` action with the others, so the theorems cover every ordering. Tied to the code by the correspondence run, which here includes an EXHAUSTIVE table ({none,zero,finite}^3 x runtime x 11 situation/ordering variants = 594 histories on a paused tokio clock, plus all 54 build() combinations) and an independent cause-based result oracle.",
        "level_note": "tokio's timer (fires after the deadline, inner future polled first) is trusted and validated by the table run on a paused clock. The unmanaged pool's single timeout is covered under C05/C12's model (see there). Axioms: propext, Classical.choice, Quot.sound only. The recycle-timeout-without-runtime defect of the pinned tree was repaired (fix: 526ef3d).",
    },
    "C03": {
        "title": "Abandoning get() at any suspension point is harmless",
        "modules": ["DeadpoolVerif.Props.C03"],
        "theorems": [
            "DeadpoolVerif.C03_as_if_never_called", "DeadpoolVerif.C03_as_if_never_called_run",
            "DeadpoolVerif.C03_discarded_detached_once", "DeadpoolVerif.solo_run", "DeadpoolVerif.solo_step",
            "DeadpoolVerif.reach_run", "DeadpoolVerif.run_acct", "DeadpoolVerif.run_link", "DeadpoolVerif.run_conserve",
        ],
        "projection": BASE + SEM + CNT + ["idle", "out", "live", "ev"],
        "profiles": {"quick": [("cancel", 900), ("cancel-nr", 400), ("faults", 300)],
                     "thorough": [("cancel", 15000), ("cancel-nr", 8000), ("faults", 6000), ("timeouts", 4000)]},
        "monitor": "C03",
        "design_ref": "DESIGN.md §6 C03",
        "level_text": "Machine-checked Lean 4 theorems: (1) the invariants Acct (token/size/users accounting), Link (waiter registration) and Conserve (every object id in exactly one place; detach exactly once) are preserved by `cancel` and `panic` at every program counter where they are enabled - the Pc datatype enumerates every await point of get() - so no token, size slot or users count stays reserved in any schedule with any number of concurrent tasks; (2) differential theorem C03_as_if_never_called: from ANY reachable state, a get() that runs alone through ANY sequence of outcomes (unbounded: it may reject arbitrarily many idle objects, be suspended anywhere, be cancelled or panic anywhere) and ends without an object leaves the semaphore EQUAL to what it was, users and the checked-out set equal, the idle queue a sub-list, size (hence status()) reduced exactly by the idle objects discarded; (3) C03_discarded_detached_once: each discarded idle object and each object created by the call was detached exactly once during the call and is gone for good. Tied to the code by the correspondence run (cancel/panic forced at every suspension kind) and by a solo-differential monitor on the real pool that compares hook snapshots before/after every get() that ran alone.",
        "level_note": "The differential theorem is for a call that runs alone between its start and its end (other operations may be parked at any point, they just do not move); under concurrency the statement is the invariant form (1). Assumes Rust's drop order of async-fn state as validated in DESIGN §9. Axioms: propext, Classical.choice, Quot.sound only.",
    },
    "C09": {
        "title": "retain(), take() and detach keep the books straight",
        "modules": ["DeadpoolVerif.Props.C09"],
        "theorems": [
            "DeadpoolVerif.C09_retain_exact", "DeadpoolVerif.C09_retain_partition", "DeadpoolVerif.C09_take",
            "DeadpoolVerif.C09_detach_exactly_once", "DeadpoolVerif.C09_detach_exactly_once_run",
            "DeadpoolVerif.C09_gone_is_gone",
            "DeadpoolVerif.reach_run", "DeadpoolVerif.run_acct", "DeadpoolVerif.run_conserve",
        ],
        "projection": BASE + SEM + CNT + ["idle", "out", "live", "ev"],
        "profiles": {"quick": [("retain", 800), ("resize", 300), ("close", 300)],
                     "thorough": [("retain", 12000), ("resize", 6000), ("close", 6000), ("cancel", 4000)]},
        "monitor": "C09",
        "design_ref": "DESIGN.md §6 C09",
        "level_text": "Machine-checked Lean 4 theorems: retain with an arbitrary stateful predicate (the answer of its k-th call) removes exactly the idle objects answered `false`, keeps the rest in order, reports accurate counts, detaches each removed object once and touches neither checked-out objects nor the semaphore nor max_size (C09_retain_exact, C09_retain_partition); Object::take hands the value over, shrinks size and users by one and returns one token (C09_take); in EVERY reachable state (all histories incl. resize, close, cancellations, panics; any thread-level interleaving of the atomic steps) the number of detach calls for an object id equals the number of times it left the pool, which is at most once, it is zero for every object still idle / checked out / in an operation's hands, no object is in two places (C09_detach_exactly_once from the counting invariant Conserve), and a gone object never reappears in any continuation (C09_gone_is_gone). Tied to the code by the correspondence run (events: every detach / destroy / taken / pred / retained with object ids and metrics) and a ground-truth monitor over destructor and detach logs.",
        "level_note": "Panicking predicates / detach are outside the quantifier (they run under the mutex and poison it). The shrink/close path of the pinned tree dropped idle objects without detach; repaired (fix: 995d67d) and covered by corpus/C09. Axioms: propext, Classical.choice, Quot.sound only.",
    },
    "C07": {
        "title": "resize() makes the new limit effective in both directions",
        "modules": ["DeadpoolVerif.Props.C07"],
        "theorems": [
            "DeadpoolVerif.C07_live_le_max_plus_debt_partial", "DeadpoolVerif.C07_effective_when_collected_partial",
            "DeadpoolVerif.C07_max_size_set", "DeadpoolVerif.C07_shrink_iteration", "DeadpoolVerif.C07_grow_exact",
            "DeadpoolVerif.C07_capacity_at_rest_partial",
            "DeadpoolVerif.C07_witness_a", "DeadpoolVerif.C07_witness_b", "DeadpoolVerif.C07_full_is_false",
            "DeadpoolVerif.run_acct", "DeadpoolVerif.run_link",
        ],
        "projection": BASE + SEM + CNT + ["idle", "out", "live", "ev"],
        "profiles": {"quick": [("resize", 900), ("retain", 200)],
                     "thorough": [("resize", 20000), ("retain", 4000), ("cancel", 4000)]},
        "monitor": "C07",
        "design_ref": "DESIGN.md §6 C07",
        "level_text": "The pinned code violates C07 (genuine defect, known finding `shrink-undercollect`, not repaired because the repair is a ~50-line rewrite of resize/return paths). Machine-checked Lean 4: the negation of the full-strength statement with two concrete histories (C07_witness_a/b, C07_full_is_false; the same histories are replayed on the real code on every run), and the part that holds for EVERY reachable state: live + being-created <= max_size + debt where the ghost `debt` is exactly the capacity a shrink could not collect (C07_live_le_max_plus_debt_partial), hence the limit is effective whenever debt = 0 (C07_effective_when_collected_partial); max_size is the target once the resize holds the mutex; each shrink iteration releases and detaches one idle object per free token; growing by k hands exactly k tokens, waiters first (C07_grow_exact); at rest capacity = max_size + debt (C07_capacity_at_rest_partial). The check reports KNOWN-FINDING only for violations that the model reproduces step by step with debt > 0 at the violating step; any other C07 violation (e.g. wrong grow amount, admission over the limit with debt = 0, a divergence from the model) is a VIOLATION.",
        "level_note": "Known finding, see known_findings.txt. Axioms: propext, Classical.choice, Quot.sound only.",
    },
    "C06": {
        "title": "close() is prompt, final and leaves nothing behind",
        "modules": ["DeadpoolVerif.Props.C06"],
        "theorems": [
            "DeadpoolVerif.C06_closed_forever", "DeadpoolVerif.C06_get_after_close_fails",
            "DeadpoolVerif.C06_close_wakes_all", "DeadpoolVerif.C06_resize_noop_after_close",
            "DeadpoolVerif.C06_return_after_close_discards", "DeadpoolVerif.C06_no_idle_after_close_partial",
            "DeadpoolVerif.C06_witness_idle_retained", "DeadpoolVerif.C06_witness_max_size",
            "DeadpoolVerif.run_acct", "DeadpoolVerif.run_link",
        ],
        "projection": BASE + SEM + CNT + ["idle", "out", "live", "ev"],
        "profiles": {"quick": [("close", 1000), ("cancel", 200)],
                     "thorough": [("close", 25000), ("cancel", 5000), ("resize", 3000)]},
        "monitor": "C06",
        "design_ref": "DESIGN.md §6 C06",
        "level_text": "Machine-checked Lean 4 theorems for every reachable state / every continuation: once closed always closed (C06_closed_forever); on a closed pool every acquisition step of get - blocking, timed, non-blocking, fresh, waiting, re-polled, at its deadline - ends in Closed and never obtains a slot (C06_get_after_close_fails); close empties the wait queue, i.e. wakes every waiter, which then completes with Closed (C06_close_wakes_all + C02_woken_completes); resize on a closed pool changes nothing; an object returned once max_size = 0 is discarded (detached, destroyed), not queued; a closed pool at rest whose shrink collected everything holds no object (C06_no_idle_after_close_partial). Two clauses are violated by the pinned code in rare thread-level interleavings (known findings `close-retains-idle`, `resize-races-close`): proved as witnesses (C06_witness_idle_retained, C06_witness_max_size), the first replayed on the real code on every run. Objects outliving every pool handle: Weak upgrade fails, return/take touch nothing of the pool (harness scenario, not modelled).",
        "level_note": "Known findings, see known_findings.txt; only violations that the model reproduces with the documented mechanism are attributed to them. Axioms: propext, Classical.choice, Quot.sound only.",
    },
    "C04": {
        "title": "Only freshly verified objects are handed out; errors surface exactly",
        "modules": ["DeadpoolVerif.Props.C04"],
        "theorems": [
            "DeadpoolVerif.C04_handout_requires_all_ok", "DeadpoolVerif.C04_recycle_sequence_in_order",
            "DeadpoolVerif.C04_recycle_sequence_starts_at_zero", "DeadpoolVerif.C04_post_create_in_order",
            "DeadpoolVerif.C04_recycle_failure_discards", "DeadpoolVerif.C04_discard_path",
            "DeadpoolVerif.C04_discarded_never_reissued", "DeadpoolVerif.C04_error_variants",
            "DeadpoolVerif.run_conserve", "DeadpoolVerif.ops_forall_of_local",
        ],
        "projection": BASE + SEM + CNT + ["idle", "out", "live", "ev"],
        "profiles": {"quick": [("faults", 900), ("cancel", 300), ("timeouts", 300)],
                     "thorough": [("faults", 15000), ("cancel", 6000), ("timeouts", 6000), ("retain", 3000)]},
        "monitor": "C04",
        "design_ref": "DESIGN.md §6 C04",
        "level_text": "Machine-checked Lean 4 theorems about the model's get(): an object reaches a caller only by the step in which the last callback of the sequence answers ok (C04_handout_requires_all_ok - the three hand-out situations are exhaustive); callbacks are entered in registration order, one after the ok of the previous one, on the same object with unchanged metrics, starting at index 0 when the object is popped (C04_recycle_sequence_*, C04_post_create_in_order); any failing / timed-out / cancelled / panicking recycling step sends exactly that object down the discard path - one detach, destruction - and a recycle error or timeout continues silently with `retry` (C04_recycle_failure_discards, C04_discard_path); a destroyed object is never in anybody's hands, idle or handed out in any continuation (C04_discarded_never_reissued, from the counting invariant Conserve for all reachable states); in every reachable state a failing get() is about to report only a documented variant with its documented cause, never a recycling error or Timeout(Recycle) (C04_error_variants, invariant). Tied to the code by the correspondence run on the full event stream (every callback with object id and metrics, detach, destroy, hand-out, result) and by a per-get grammar monitor over the real call log; outcomes are assigned to the n-th call of every callback with 0-2 hooks per kind, sync and async.",
        "level_note": "The sequencing theorems are step-level (decision logic stated outright) plus reachable-state invariants; the trace-level reading (the event log of each get follows the grammar) is checked on the implementation's logs by the monitor. Axioms: propext, Classical.choice, Quot.sound only.",
    },
    "C08": {
        "title": "Reuse order follows the queue mode; creation is lazy; no background work",
        "modules": ["DeadpoolVerif.Props.C08"],
        "theorems": [
            "DeadpoolVerif.C08_idle_ordered", "DeadpoolVerif.C08_queue_mode", "DeadpoolVerif.C08_return_appends",
            "DeadpoolVerif.C08_lazy_create", "DeadpoolVerif.C08_no_background",
            "DeadpoolVerif.run_objinv",
        ],
        "projection": BASE + SEM + CNT + ["idle", "out", "live", "ev"],
        "extra": ["background"],
        "profiles": {"quick": [("retain", 500), ("faults", 400), ("resize", 300)],
                     "thorough": [("retain", 10000), ("faults", 8000), ("resize", 6000), ("cancel", 4000)]},
        "monitor": "C08",
        "design_ref": "DESIGN.md §6 C08",
        "level_text": "Machine-checked Lean 4 theorems: in every reachable state (any history of gets, returns in any order, takes, retains, resizes, rejected recycles; both modes; any max_size) the idle queue is ordered by the time the objects were returned (C08_idle_ordered, invariant with a ghost return time), so the object a get() pops is one that has been idle longest in Fifo mode and one returned most recently in Lifo mode (C08_queue_mode); a return appends at the back; Manager::create is called only by the step of a get() that just found the queue empty under the mutex (C08_lazy_create, over all steps of all operations); a freshly built pool has an empty call log and the log grows only by the events of a step of some operation - there is no transition without an operation (C08_no_background). Tied to the code by the correspondence run (idle queue contents and order compared after every step), a reference-queue monitor kept from the return log, the check that every callback event is emitted by the operation that is running, and a background check (pool built on a live multi-threaded tokio runtime: no user code called at build time or during idle periods).",
        "level_note": "Absence of spawned background work in the code is validated by the background check and by the fact that every callback observed in any trace belongs to the stepping operation; the model has no such transition by construction. Axioms: propext, Classical.choice, Quot.sound only.",
    },
    "C13": {
        "title": "Per-object metrics tell the truth",
        "modules": ["DeadpoolVerif.Props.C13"],
        "theorems": [
            "DeadpoolVerif.C13_metrics_truthful", "DeadpoolVerif.C13_shown_metrics",
            "DeadpoolVerif.C13_bump_at_handout", "DeadpoolVerif.C13_no_bump_on_failure",
            "DeadpoolVerif.C13_return_keeps_metrics", "DeadpoolVerif.run_objinv",
        ],
        "projection": BASE + ["idle", "out", "ev"],
        "profiles": {"quick": [("faults", 700), ("retain", 400), ("cancel", 300)],
                     "thorough": [("faults", 12000), ("retain", 8000), ("cancel", 6000)]},
        "monitor": "C13",
        "design_ref": "DESIGN.md §6 C13",
        "level_text": "Machine-checked Lean 4 theorems: in every reachable state every object of the pool, wherever it is, has recycle_count = hand-outs - 1 (ghost hand-out counter), a recycled instant that is absent exactly while recycle_count = 0, created <= recycled <= now; freshly created objects have count 0 and no recycled instant (C13_metrics_truthful, invariant ObjInv); every metrics value ever shown to a pre_recycle hook, Manager::recycle, a post_recycle hook, a retain predicate or a caller satisfies the same relation for the hand-outs that had happened when it was shown, and post_create hooks see fresh metrics (C13_shown_metrics, over the whole log); the bump (count + 1, recycled := now) happens exactly in the hand-out step after a complete successful recycle and never on a failed / rejected / cancelled one; a return puts the object back with untouched metrics. Tied to the code by the correspondence run (metrics of every idle object and of every event compared exactly, instants mapped to action numbers) and a monitor with its own per-object hand-out bookkeeping.",
        "level_note": "Instant monotonicity is trusted; instants are compared through the order-preserving map instant -> index of the action during which it was taken. Axioms: propext, Classical.choice, Quot.sound only.",
    },
}
