"""Per-property registration: Lean obligations, correspondence projection, generator
profiles, monitors."""

ALLOWED_AXIOMS = {"propext", "Classical.choice", "Quot.sound"}

TRUSTED_COMMON = [
    "Lean 4.33.0 kernel; axioms of every listed theorem are printed by `#print axioms` on each run and must be a subset of {propext, Classical.choice, Quot.sound}; no sorry/admit/native_decide/bv_decide/own axioms",
    "hand-written model lean/DeadpoolVerif/Model/*.lean; tied to /repo by the correspondence run of this check (h-core harness: real code under a baton scheduler, every atomic step compared with the model's executable step function)",
    "tokio::sync::Semaphore modelled as Sem (each call atomic), std::sync::Mutex mutual exclusion, sequentially consistent interleaving of the atomic steps (the only weaker accesses are Relaxed RMWs on single counters)",
    "Rust drop order of async-fn state (inner future, then locals in reverse declaration order); tokio timers fire after their deadline and not before",
    "harness + bin/check diff + verif hooks (--cfg deadpool_verif) in /repo/src",
]

# components of the observation vector
SEM = ["permits", "closed", "woken"]
CNT = ["users", "size", "max"]
BASE = ["op", "lbl", "susp", "fault"]

HOOK_COMMITS = ["ec62fa8"]

# properties not (yet) claimed, with the reason
_WIP = "not claimed yet: model/harness for this property is still being built in this round (see DESIGN.md §10)"
NOT_CLAIMED = {f"C{n:02d}": _WIP for n in range(1, 20)}

PROPS = {
    "C01": {
        "title": "Managed pool never has more than max_size live objects",
        "modules": ["DeadpoolVerif.Props.C01"],
        "theorems": [
            "DeadpoolVerif.C01_live_le_max", "DeadpoolVerif.C01_pooled_le_max",
            "DeadpoolVerif.C01_holders_le_max", "DeadpoolVerif.C01_create_within_limit",
            "DeadpoolVerif.C01_size_le_max",
            # shared invariants it rests on
            "DeadpoolVerif.run_acct", "DeadpoolVerif.run_norz",
        ],
        "projection": BASE + SEM + ["size", "max", "idle", "out", "live"],
        "profiles": {"quick": [("noresize", 400), ("cancel-nr", 300), ("faults", 300)],
                     "thorough": [("noresize", 6000), ("cancel-nr", 5000), ("faults", 5000), ("retain-nr", 2000), ("timeouts-nr", 2000)]},
        "monitor": "C01",
        "design_ref": "DESIGN.md §6 C01",
        "level_text": "Machine-checked Lean 4 theorems (C01_live_le_max and corollaries) over an executable small-step model of the managed pool: for every list of actions without resize/close - any number of tasks, any interleaving of atomic steps, any callback outcome incl. panic/never/cancel, both queue modes, any hooks, any max_size - objects existing or being created never exceed max_size. The model is tied to the current source by replaying, on every run, thousands of controlled-scheduler traces of the real code step by step on the model (projection permits/closed/woken/size/max/idle/out/live/labels) and by a ground-truth monitor on the implementation.",
        "level_note": "Proof is about the hand-written model; the tie to the code is the correspondence run (differential, not exhaustive). Assumes tokio Semaphore as modelled (Sem), SC interleaving of atomic steps, Rust async drop order. Axioms: propext, Classical.choice, Quot.sound only.",
    },
}
