#!/usr/bin/env python3
"""Regenerates MANIFEST.json from lib/props.py (run after registering a property)."""
import json, os, sys
VERIF = os.path.dirname(os.path.dirname(os.path.abspath(__file__)))
sys.path.insert(0, os.path.join(VERIF, "lib"))
from props import PROPS, NOT_CLAIMED, HOOK_COMMITS

TECH = {
    "lean+h-core": "Lean 4 proof (invariants by induction over the action list of a small-step model) + per-step correspondence check against the real code under a controlled scheduler",
    "lean+h-core(unmanaged)": "Lean 4 proof (invariants by induction over the action list of a small-step model) + per-step correspondence check against the real code under a controlled scheduler",
    "lean+h-sync": "Lean 4 proof (invariant by induction over the action list of a small-step model, specification automaton over the event history) + trace-inclusion correspondence check: the real-time event log of the real code on a multi-threaded runtime must be accepted by the model",
    "lean+h-syncpools": "Lean 4 proof (decision tables by case analysis; trace invariant by induction over the action list of the pool model under an honest-environment hypothesis) + differential correspondence check of sequential histories against the real pools",
    "lean+h-pg(wire)": "Lean 4 proof (decision logic; data-structure invariant by induction over operation sequences; registry exactness from the pool model's conservation invariant) + differential correspondence check of sequential histories against the real pool and a scripted wire-protocol server",
    "lean+h-redis": "Lean 4 proof (decision logic, round-trip laws, freshness by induction) + differential correspondence check against the real code (scripted RESP server / local listeners / serde)",
    "lean+h-pg": "Lean 4 proof (total function on mirror structures, per-field laws by case analysis) + differential correspondence check of generated configurations against the real code",
}

checks = []
for pid in sorted(PROPS):
    p = PROPS[pid]
    checks.append({
        "property_id": pid,
        "quick_cmd": f"bin/check {pid} --tier quick",
        "thorough_cmd": f"bin/check {pid} --tier thorough",
        "evidence_file": f"/verif/evidence/{pid}.json",
        "replay_cmd_template": f"bin/check {pid} --replay {{path}}",
        "engine": p.get("engine", "lean+h-core"),
        "level_claimed": {"category": "proof", "text": p["level_text"], "design_ref": p["design_ref"]},
        "level_note": p["level_note"],
        "technique": p.get("technique", TECH.get(p.get("engine", "lean+h-core")))
                     + "; supporting the tie and the search for a failing input (never standing in for a theorem): independent history monitor, static shape rules on the source (what the model treats as one atomic step)"
                     + ((", scenario extras on the real code: " + ", ".join(p["extra"])) if p.get("extra") else ""),
    })
m = {
    "version": 1,
    "setup_cmd": "bin/setup",
    "hooks": {
        "guard": "--cfg deadpool_verif",
        "enable": "harness/.cargo/config.toml sets rustflags = [\"--cfg\", \"deadpool_verif\"]; the harness crates depend on /repo by path, so every check rebuilds /repo's working tree with the hooks on",
        "baseline_off_cmd": "cd /repo && cargo test --workspace --no-fail-fast --offline",
        "source_commits": HOOK_COMMITS,
        "add_only": True,
    },
    "engines": [
        {"name": "lean", "path": "lean/", "serves_properties": sorted(PROPS), "kind_free_text": "Lean 4 models (Model/), lemmas (Lemmas/), property theorems (Props/), dpmodel driver (Driver/)"},
        {"name": "h-core", "path": "harness/h-core", "serves_properties": [p for p in sorted(PROPS) if PROPS[p].get("engine", "lean+h-core").startswith("lean+h-core")], "kind_free_text": "runs the real deadpool code under a baton scheduler with scripted manager/hooks; emits action+observation traces"},
        {"name": "h-sync", "path": "harness/h-sync", "serves_properties": ["C14"], "kind_free_text": "runs the real SyncWrapper on a multi-threaded tokio runtime with gated closures; emits the real-time event log"},
        {"name": "h-syncpools", "path": "harness/h-syncpools", "serves_properties": ["C15"], "kind_free_text": "sequential histories over the real sqlite / r2d2 (scripted ManageConnection) / diesel pools with connection identity observed at every hand-out"},
        {"name": "h-pg", "path": "harness/h-pg", "serves_properties": ["C16", "C18"], "kind_free_text": "cfg-diff: generated Config values through the real get_pg_config()/create_pool(); wire: real pool and clients against a scripted PostgreSQL wire-protocol server"},
        {"name": "h-redis", "path": "harness/h-redis", "serves_properties": ["C17", "C19"], "kind_free_text": "diff: real create_pool()/From impls/serde of the redis crates with contacted servers observed on local listeners; recycle: real pool against a scripted RESP server"},
        {"name": "check", "path": "bin/check", "serves_properties": sorted(PROPS), "kind_free_text": "orchestrator: proof gate + axiom audit, correspondence diff, monitors, evidence"},
    ],
    "checks": checks,
    "not_applicable": [{"property_id": k, "reason": v} for k, v in sorted(NOT_CLAIMED.items()) if k not in PROPS],
    "notes": "See DESIGN.md. Known findings and fixed defects: known_findings.txt. /repo commit 9400e73 ('round 1: uncommitted hook changes (driver)') is NOT a hook: it is an unguarded seeded change (seeded/C14/r3-2) that an interrupted bin/seeded run left in the working tree; it violated C14 and C15 and is reverted by the fix commit b108dc6 (DESIGN.md 11.7). The hooks are exactly hooks.source_commits.",
}
json.dump(m, open(os.path.join(VERIF, "MANIFEST.json"), "w"), indent=1)
print("MANIFEST.json:", len(checks), "checks,", len(m["not_applicable"]), "not claimed")
