#!/usr/bin/env python3
"""Regenerates MANIFEST.json from lib/props.py (run after registering a property)."""
import json, os, sys
VERIF = os.path.dirname(os.path.dirname(os.path.abspath(__file__)))
sys.path.insert(0, os.path.join(VERIF, "lib"))
from props import PROPS, NOT_CLAIMED, HOOK_COMMITS

checks = []
for pid in sorted(PROPS):
    p = PROPS[pid]
    checks.append({
        "property_id": pid,
        "quick_cmd": f"bin/check {pid} --tier quick",
        "thorough_cmd": f"bin/check {pid} --tier thorough",
        "evidence_file": f"/verif/evidence/{pid}.json",
        "replay_cmd_template": f"bin/check {pid} --replay {{path}}",
        "engine": p.get("engine", "lean+h-core"),
        "level_claimed": {"category": "proof", "text": p["level_text"], "design_ref": p["design_ref"]},
        "level_note": p["level_note"],
        "technique": p.get("technique", "Lean 4 proof (invariants by induction over the action list of a small-step model) + per-step correspondence check against the real code under a controlled scheduler"),
    })
m = {
    "version": 1,
    "setup_cmd": "bin/setup",
    "hooks": {
        "guard": "--cfg deadpool_verif",
        "enable": "harness/.cargo/config.toml sets rustflags = [\"--cfg\", \"deadpool_verif\"]; the harness crates depend on /repo by path, so every check rebuilds /repo's working tree with the hooks on",
        "baseline_off_cmd": "cd /repo && cargo test --workspace --no-fail-fast --offline",
        "source_commits": HOOK_COMMITS,
        "add_only": True,
    },
    "engines": [
        {"name": "lean", "path": "lean/", "serves_properties": sorted(PROPS), "kind_free_text": "Lean 4 models (Model/), lemmas (Lemmas/), property theorems (Props/), dpmodel driver (Driver/)"},
        {"name": "h-core", "path": "harness/h-core", "serves_properties": sorted(PROPS), "kind_free_text": "runs the real deadpool code under a baton scheduler with scripted manager/hooks; emits action+observation traces"},
        {"name": "check", "path": "bin/check", "serves_properties": sorted(PROPS), "kind_free_text": "orchestrator: proof gate + axiom audit, correspondence diff, monitors, evidence"},
    ],
    "checks": checks,
    "not_applicable": [{"property_id": k, "reason": v} for k, v in sorted(NOT_CLAIMED.items()) if k not in PROPS],
    "notes": "See DESIGN.md. Known findings: known_findings.txt.",
}
json.dump(m, open(os.path.join(VERIF, "MANIFEST.json"), "w"), indent=1)
print("MANIFEST.json:", len(checks), "checks,", len(m["not_applicable"]), "not claimed")
