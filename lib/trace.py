"""Trace files: parsing, model replay, component-wise comparison."""
import subprocess, os, re

VERIF = os.path.dirname(os.path.dirname(os.path.abspath(__file__)))
DPMODEL = os.path.join(VERIF, "lean/.lake/build/bin/dpmodel")

U_COMPONENTS = ["op", "lbl", "susp", "permits", "spermits", "closed", "sclosed", "size", "avail", "queue",
                "hands", "returned", "dropped", "woken", "fault", "ev"]

# SyncWrapper traces: the harness knows the number of value events so far and, at probes, the poison flag
S_COMPONENTS = ["events", "poisoned"]

ALL_COMPONENTS = ["op", "lbl", "susp", "permits", "closed", "users", "size", "max",
                  "idle", "out", "live", "woken", "fault", "ev"]


def parse_obs(line):
    """'obs k=v k=v ... ev=...' -> dict (ev is last and may contain spaces? no: never)"""
    d = {}
    for w in line.split(" ")[1:]:
        if "=" in w:
            k, v = w.split("=", 1)
            d[k] = v
    return d


class Trace:
    def __init__(self, header):
        self.header = header
        self.cfg = None
        self.steps = []      # list of (action_line, harness_obs_line or None, section)
        self.error = None
        self.sections = []

    def text(self, upto=None):
        out = [self.cfg]
        for k, (a, o, sec) in enumerate(self.steps):
            if upto is not None and k > upto:
                break
            out.append(a)
            if o:
                out.append(o)
        return "\n".join(out) + "\n"

    def actions_text(self):
        return "\n".join([self.cfg] + [a for a, _, _ in self.steps]) + "\n"


def read_traces(path):
    traces = []
    cur = None
    section = "main"
    pending_action = None
    with open(path) as f:
        for line in f:
            line = line.rstrip("\n")
            if not line:
                continue
            if line.startswith("trace "):
                cur = Trace(line)
                section = "main"
                traces.append(cur)
                continue
            if cur is None:
                cur = Trace("trace ?")
                traces.append(cur)
            if line == "end":
                cur = None
                continue
            if line.startswith("cfg "):
                cur.cfg = line
                continue
            if line.startswith("# "):
                section = line[2:].strip()
                continue
            if line.startswith("obs "):
                a, _, sec = cur.steps[-1]
                cur.steps[-1] = (a, line, sec)
                continue
            if line.startswith("error "):
                cur.error = line[6:]
                continue
            cur.steps.append((line, None, section))
    return [t for t in traces if t.cfg is not None]


def run_model(traces):
    """Replays all traces on dpmodel; returns list (per trace) of list of model lines (per action)."""
    inp = "".join(t.actions_text() for t in traces)
    r = subprocess.run([DPMODEL], input=inp, capture_output=True, text=True)
    if r.returncode != 0:
        raise RuntimeError("dpmodel failed: " + r.stderr[:2000])
    lines = r.stdout.split("\n")
    res = []
    k = 0
    for t in traces:
        assert lines[k].startswith("cfg ok"), (lines[k], t.cfg)
        k += 1
        n = len(t.steps)
        res.append(lines[k:k + n])
        k += n
    return res


def compare(trace, model_lines, components):
    """Returns None if equal on `components` for all steps, else (step_index, component, impl, model)."""
    rejected = False
    for k, ((a, o, sec), m) in enumerate(zip(trace.steps, model_lines)):
        if o is None:
            # the implementation could not execute this action (error recorded); nothing to compare
            return None
        if m == "reject" or m == "bad-op" or not m.startswith("obs "):
            return (k, "enabled", "executed", m)
        do, dm = parse_obs(o), parse_obs(m)
        for c in components:
            if do.get(c) == "?":
                continue
            if do.get(c) != dm.get(c):
                return (k, c, do.get(c), dm.get(c))
    return None
